//! Kani harnesses on the REAL crate (public API only; no hooks needed).
#[cfg(kani)]
mod harnesses {
    use simfony::types::UIntType;
    use simfony::value::UIntValue;

    /// Contract of `TryFrom<&[u8]> for UIntValue` assumed by the Verus unit `literal`
    /// (contracts/literal.vc, @assume-body): Ok exactly for lengths 1, 2, 4, 8, 16, 32; the value is the big-endian
    /// value of the bytes and the type has 8 * len bits.  Loop-free over the full domain of byte strings of length <= 33
    /// (a complete proof, not a bounded stand-in: longer inputs take the same `_ => Err` arm on `value.len()`).
    #[kani::proof]
    #[kani::unwind(34)]
    fn kani_try_from_bytes() {
        let bytes: [u8; 33] = kani::any();
        let len: usize = kani::any();
        kani::assume(len <= 33);
        let slice = &bytes[..len];
        let r = UIntValue::try_from(slice);
        let ok_len = len == 1 || len == 2 || len == 4 || len == 8 || len == 16 || len == 32;
        assert!(r.is_ok() == ok_len);
        if let Ok(v) = r {
            match v {
                UIntValue::U8(n) => { assert!(len == 1 && n == bytes[0]); assert!(v.get_type() == UIntType::U8); }
                UIntValue::U16(n) => { assert!(len == 2 && n == ((bytes[0] as u16) << 8 | bytes[1] as u16)); }
                UIntValue::U32(n) => {
                    assert!(len == 4);
                    let e = (bytes[0] as u32) << 24 | (bytes[1] as u32) << 16 | (bytes[2] as u32) << 8 | bytes[3] as u32;
                    assert!(n == e);
                }
                UIntValue::U64(n) => {
                    assert!(len == 8);
                    let mut e: u64 = 0;
                    let mut i = 0;
                    while i < 8 { e = (e << 8) | bytes[i] as u64; i += 1; }
                    assert!(n == e);
                }
                UIntValue::U128(n) => {
                    assert!(len == 16);
                    let mut e: u128 = 0;
                    let mut i = 0;
                    while i < 16 { e = (e << 8) | bytes[i] as u128; i += 1; }
                    assert!(n == e);
                }
                UIntValue::U256(n) => {
                    assert!(len == 32);
                    let b = n.to_byte_array();
                    let mut i = 0;
                    while i < 32 { assert!(b[i] == bytes[i]); i += 1; }
                }
                _ => { assert!(false); }
            }
        }
    }

    // NOTE: a harness for UIntValue::parse_binary (8 symbolic binary digits at u8) did not finish in 15 min: CBMC unwinds the
    // recursive drop glue of `Error` payloads (`ResolvedType` is a recursive Arc type).  parse_binary is therefore covered only by
    // the bounded searcher `literal-text/`.
}
