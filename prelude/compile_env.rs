// ---- prelude/compile_env.rs : ASSUMED model of what compile::Scope needs around it (R7 / A-types) ----
/// crate::pattern::Pattern, crate::debug::CallTracker, crate::witness::Arguments, crate::error::{Span, RichError} are opaque here
#[verifier::external_body] pub struct Pattern { _p: u8 }
#[verifier::external_body] pub struct Arguments { _p: u8 }
#[verifier::external_body] pub struct Span { _p: u8 }
#[verifier::external_body] #[derive(Debug)] pub struct RichError { _p: u8 }
#[verifier::external_body] pub struct CallTracker { _p: u8 }
impl CallTracker {
    /// the marker CMR recorded for a call site, if the call is tracked (in-repo: debug.rs, a HashMap lookup)
    pub uninterp spec fn cmr_of(&self, span: &Span) -> Option<Cmr>;
    #[verifier::external_body]
    pub fn get_cmr(&self, span: &Span) -> (r: Option<Cmr>) ensures r == self.cmr_of(span) { unimplemented!() }
}
/// `error::WithSpan::with_span` only decorates the error: Ok stays Ok with the same value (in-repo: error.rs:169, a map_err)
pub trait WithSpan<T>: Sized {
    spec fn ok_val(&self) -> Option<T>;
    fn with_span<S>(self, span: S) -> (r: Result<T, RichError>)
        ensures (r is Ok) == (self.ok_val() is Some), r is Ok ==> Some(r->Ok_0) == self.ok_val();
}
impl<T, E> WithSpan<T> for Result<T, E> {
    open spec fn ok_val(&self) -> Option<T> { match *self { Ok(t) => Some(t), Err(_) => None } }
    #[verifier::external_body]
    fn with_span<S>(self, span: S) -> (r: Result<T, RichError>) { unimplemented!() }
}

#[verifier::external_trait_specification]
pub trait ExAsRef<T: core::marker::PointeeSized>: core::marker::PointeeSized {
    type ExternalTraitSpecificationFor: core::convert::AsRef<T>;
    fn as_ref(&self) -> &T;
}
