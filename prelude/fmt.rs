// ---- prelude/fmt.rs : ASSUMED model of core::fmt output (R6 / A-std) ----
// `write!(f, "{}", x)` is replaced by rule R6 with a call of an assumed emitter that appends the rendered text of x to the
// formatter's ghost log.  Only what Display prints for a single decimal digit is modelled.
pub mod fmt {
    use super::*;
    #[verifier::external_body]
    pub struct Formatter<'a> { _p: core::marker::PhantomData<&'a ()> }
    #[verifier::external_body]
    pub struct Error { _p: u8 }
    pub type Result = core::result::Result<(), Error>;
    impl<'a> Formatter<'a> {
        /// text written so far
        pub uninterp spec fn log(&self) -> Seq<char>;
    }
}
pub use fmt::Formatter;
pub type FmtError = fmt::Error;
/// `write!(f, "{}", d)` for a u8 below 10: appends the character of that digit
#[verifier::external_body]
pub fn emit_u8_digit(f: &mut Formatter<'_>, d: u8) -> (r: Result<(), FmtError>)
    requires d < 10
    ensures r is Ok ==> final(f).log() == old(f).log().push(digit_char(d as nat))
{ unimplemented!() }
pub open spec fn digit_char(d: nat) -> char { if d == 0 { '0' } else if d == 1 { '1' } else if d == 2 { '2' } else if d == 3 { '3' } else if d == 4 { '4' }
    else if d == 5 { '5' } else if d == 6 { '6' } else if d == 7 { '7' } else if d == 8 { '8' } else { '9' } }
