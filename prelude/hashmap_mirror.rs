// ---- prelude/hashmap_mirror.rs : ASSUMED model of std::collections::HashMap as used by witness.rs (A-std) ----
// The std type is replaced by this opaque mirror (same method names and signatures) because vstd's model of the
// `keys()` / `iter()` iterators cannot be related to the map's domain.  Iteration order is left unspecified:
// the iterators yield the keys in SOME duplicate-free order covering the domain.
#[verifier::external_body]
#[verifier::reject_recursive_types(K)]
#[verifier::reject_recursive_types(V)]
pub struct HashMap<K, V> { _k: core::marker::PhantomData<K>, _v: core::marker::PhantomData<V> }

#[verifier::external_body]
#[verifier::reject_recursive_types(K)]
pub struct Keys<'a, K> { _k: core::marker::PhantomData<&'a K> }

#[verifier::external_body]
#[verifier::reject_recursive_types(K)]
#[verifier::reject_recursive_types(V)]
pub struct Iter<'a, K, V> { _k: core::marker::PhantomData<&'a K>, _v: core::marker::PhantomData<&'a V> }

impl<K, V> View for HashMap<K, V> { type V = Map<K, V>; uninterp spec fn view(&self) -> Map<K, V>; }

impl<K, V> HashMap<K, V> {
    #[verifier::external_body]
    pub fn get<'a>(&'a self, k: &K) -> (r: Option<&'a V>)
        ensures r == (if self@.contains_key(*k) { Some(&self@[*k]) } else { None::<&V> })
    { unimplemented!() }

    #[verifier::external_body]
    pub fn keys<'a>(&'a self) -> (it: Keys<'a, K>)
        ensures it.rem().no_duplicates(), it.rem().to_set() == self@.dom()
    { unimplemented!() }

    #[verifier::external_body]
    pub fn iter<'a>(&'a self) -> (it: Iter<'a, K, V>)
        ensures it.rem().no_duplicates(), it.rem().to_set() == self@.dom(), it.map() == self@
    { unimplemented!() }

    #[verifier::external_body]
    pub fn insert(&mut self, k: K, v: V) -> (r: Option<V>)
        ensures
            final(self)@ == old(self)@.insert(k, v),
            r == (if old(self)@.contains_key(k) { Some(old(self)@[k]) } else { None::<V> }),
    { unimplemented!() }

    /// `map[key]` (std: panics when the key is absent)
    #[verifier::external_body]
    pub fn index<'a>(&'a self, k: &K) -> (r: &'a V)
        requires self@.contains_key(*k)
        ensures *r == self@[*k]
    { unimplemented!() }
}

impl<'a, K> Keys<'a, K> {
    pub uninterp spec fn rem(&self) -> Seq<K>;
    #[verifier::external_body]
    pub fn next(&mut self) -> (r: Option<&'a K>)
        ensures
            old(self).rem().len() == 0 ==> r is None && final(self).rem() == old(self).rem(),
            old(self).rem().len() > 0 ==> r is Some && *r->Some_0 == old(self).rem()[0] && final(self).rem() == old(self).rem().skip(1),
    { unimplemented!() }
}

impl<'a, K, V> Iter<'a, K, V> {
    pub uninterp spec fn rem(&self) -> Seq<K>;
    pub uninterp spec fn map(&self) -> Map<K, V>;
    #[verifier::external_body]
    pub fn next(&mut self) -> (r: Option<(&'a K, &'a V)>)
        ensures
            final(self).map() == old(self).map(),
            old(self).rem().len() == 0 ==> r is None && final(self).rem() == old(self).rem(),
            old(self).rem().len() > 0 ==> r is Some && *r->Some_0.0 == old(self).rem()[0] && *r->Some_0.1 == old(self).map()[old(self).rem()[0]]
                && final(self).rem() == old(self).rem().skip(1),
    { unimplemented!() }
}
