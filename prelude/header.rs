#![feature(pattern)]
#![feature(sized_hierarchy)]
#![feature(allocator_api)]
#![allow(unused, non_snake_case, non_camel_case_types)]
use vstd::prelude::*;
use vstd::std_specs::cmp::*;
use core::cmp::Ordering;
use std::num::NonZeroU32;
use std::num::NonZeroUsize;
use core::str::FromStr;
use std::sync::Arc;
