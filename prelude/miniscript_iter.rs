// ---- prelude/miniscript_iter.rs : ASSUMED model of miniscript::iter (A-iter) ----
// `Tree` and `TreeLike` repeat the declarations of miniscript 12.3 `iter/tree.rs`.  `as_node` is
// in-repo code and is VERIFIED against `node_spec`; the provided iterator constructors are assumed to
// enumerate the tree induced by `node_spec` in post-order / verbose pre-order, as documented.
pub enum Tree<T> {
    Nullary,
    Unary(T),
    Binary(T, T),
    // miniscript declares `Nary(Arc<[T]>)`; modelled as Vec<T> (no contracted code builds an n-ary node; Verus 0.2026.09 miscompiles slices of references)
    Nary(Vec<T>),
}

/// what a post-order iterator yields for a node: the node and how many children it has
pub struct PoEvent<T> { pub node: T, pub n_children: nat }

/// what a verbose pre-order iterator yields: the node, how many of its children were yielded before, and whether this is the last time
pub struct PreEvent<T> { pub node: T, pub n_children_yielded: nat, pub is_complete: bool }

pub struct PostOrderIterItem<T> {
    pub node: T,
    pub index: usize,
    pub child_indices: Vec<usize>,
}

pub struct PreOrderIterItem<T> {
    pub node: T,
    pub parent: Option<T>,
    pub index: usize,
    pub n_children_yielded: usize,
    pub is_complete: bool,
}

#[verifier::external_body]
#[verifier::reject_recursive_types(T)]
pub struct PostOrderIter<T> { _p: core::marker::PhantomData<T> }

#[verifier::external_body]
#[verifier::reject_recursive_types(T)]
pub struct VerbosePreOrderIter<T> { _p: core::marker::PhantomData<T> }

impl<T> PostOrderIter<T> {
    /// events still to be yielded
    pub uninterp spec fn rem(&self) -> Seq<PoEvent<T>>;

    #[verifier::external_body]
    pub fn next(&mut self) -> (r: Option<PostOrderIterItem<T>>)
        ensures
            old(self).rem().len() == 0 ==> r is None && final(self).rem() == old(self).rem(),
            old(self).rem().len() > 0 ==> r is Some
                && r->Some_0.node == old(self).rem()[0].node
                && r->Some_0.child_indices@.len() == old(self).rem()[0].n_children
                && final(self).rem() == old(self).rem().skip(1),
    { unimplemented!() }
}

impl<T> VerbosePreOrderIter<T> {
    pub uninterp spec fn rem(&self) -> Seq<PreEvent<T>>;

    #[verifier::external_body]
    pub fn next(&mut self) -> (r: Option<PreOrderIterItem<T>>)
        ensures
            old(self).rem().len() == 0 ==> r is None && final(self).rem() == old(self).rem(),
            old(self).rem().len() > 0 ==> r is Some
                && r->Some_0.node == old(self).rem()[0].node
                && r->Some_0.n_children_yielded == old(self).rem()[0].n_children_yielded
                && r->Some_0.is_complete == old(self).rem()[0].is_complete
                && final(self).rem() == old(self).rem().skip(1),
    { unimplemented!() }
}

/// what the iterators enumerate (unbounded generic so that the trait can mention it); tied to node_spec by the two axioms below
pub uninterp spec fn post_order_of<T>(t: T) -> Seq<PoEvent<T>>;
pub uninterp spec fn verbose_pre_order_of<T>(t: T) -> Seq<PreEvent<T>>;

pub trait TreeLike: Clone + Sized {
    /// the abstract node `as_node` must return (given by each impl, proved for its `as_node`)
    spec fn node_spec(&self) -> Tree<Self>;
    /// well-founded measure: children are smaller (proved by each impl)
    spec fn rank(&self) -> nat;
    /// environment precondition of `as_node` for this node type (e.g. "the slice length fits isize"); inherited by children
    spec fn wf(&self) -> bool;
    proof fn lemma_rank(&self)
        requires self.wf()
        ensures match self.node_spec() {
            Tree::Nullary => true,
            Tree::Unary(c) => c.rank() < self.rank() && c.wf(),
            Tree::Binary(l, r) => l.rank() < self.rank() && r.rank() < self.rank() && l.wf() && r.wf(),
            Tree::Nary(_) => true,   // n-ary nodes: enumeration left uninterpreted (no contracted code iterates one)
        };

    fn as_node(&self) -> (r: Tree<Self>)
        requires self.wf()
        ensures r == self.node_spec();

    #[verifier::external_body]
    fn post_order_iter(self) -> (it: PostOrderIter<Self>)
        requires self.wf()
        ensures it.rem() == post_order_of(self)
    { unimplemented!() }

    #[verifier::external_body]
    fn verbose_pre_order_iter(self) -> (it: VerbosePreOrderIter<Self>)
        requires self.wf()
        ensures it.rem() == verbose_pre_order_of(self)
    { unimplemented!() }
}

/// post-order enumeration of the tree induced by node_spec, explored to depth `fuel`
/// (rank() + 1 is always enough fuel, by lemma_rank, which every impl proves)
pub open spec fn post_order_f<T: TreeLike>(t: T, fuel: nat) -> Seq<PoEvent<T>>
    decreases fuel, 0nat
{
    if fuel == 0 { Seq::empty() } else {
        let f = (fuel - 1) as nat;
        match t.node_spec() {
            Tree::Nullary => seq![PoEvent { node: t, n_children: 0 }],
            Tree::Unary(c) => post_order_f(c, f).push(PoEvent { node: t, n_children: 1 }),
            Tree::Binary(l, r) => (post_order_f(l, f) + post_order_f(r, f)).push(PoEvent { node: t, n_children: 2 }),
            Tree::Nary(_) => post_order_nary(t),
        }
    }
}

pub uninterp spec fn post_order_nary<T>(t: T) -> Seq<PoEvent<T>>;

pub open spec fn post_order<T: TreeLike>(t: T) -> Seq<PoEvent<T>> { post_order_f(t, t.rank() + 1) }

/// verbose pre-order: a node, then (child subtree, node again) for each child
pub open spec fn verbose_pre_order_f<T: TreeLike>(t: T, fuel: nat) -> Seq<PreEvent<T>>
    decreases fuel
{
    if fuel == 0 { Seq::empty() } else {
        let f = (fuel - 1) as nat;
        match t.node_spec() {
            Tree::Nullary => seq![PreEvent { node: t, n_children_yielded: 0, is_complete: true }],
            Tree::Unary(c) =>
                seq![PreEvent { node: t, n_children_yielded: 0, is_complete: false }] + verbose_pre_order_f(c, f)
                + seq![PreEvent { node: t, n_children_yielded: 1, is_complete: true }],
            Tree::Binary(l, r) =>
                seq![PreEvent { node: t, n_children_yielded: 0, is_complete: false }] + verbose_pre_order_f(l, f)
                + seq![PreEvent { node: t, n_children_yielded: 1, is_complete: false }] + verbose_pre_order_f(r, f)
                + seq![PreEvent { node: t, n_children_yielded: 2, is_complete: true }],
            // n-ary nodes are not used with this iterator by contracted code
            Tree::Nary(_) => verbose_pre_order_nary(t),
        }
    }
}
pub uninterp spec fn verbose_pre_order_nary<T>(t: T) -> Seq<PreEvent<T>>;
pub open spec fn verbose_pre_order<T: TreeLike>(t: T) -> Seq<PreEvent<T>> { verbose_pre_order_f(t, t.rank() + 1) }

/// A-iter: post_order_iter enumerates the tree induced by node_spec in post-order
#[verifier::external_body]
pub broadcast proof fn axiom_post_order_of<T: TreeLike>(t: T)
    ensures #[trigger] post_order_of(t) == post_order(t)
{}
/// A-iter: verbose_pre_order_iter enumerates the tree induced by node_spec in verbose pre-order
#[verifier::external_body]
pub broadcast proof fn axiom_verbose_pre_order_of<T: TreeLike>(t: T)
    ensures #[trigger] verbose_pre_order_of(t) == verbose_pre_order(t)
{}
