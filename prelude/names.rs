// ---- prelude/names.rs : ASSUMED model of the `Arc<str>` newtypes of src/str.rs (R7 / A-types / A-derive) ----
// `Identifier`, `WitnessName` are opaque; their view is the string; derived `==`, `Clone`, `Hash` agree with string equality.
#[verifier::external_body]
pub struct Identifier { _p: u8 }
impl View for Identifier { type V = Seq<char>; uninterp spec fn view(&self) -> Seq<char>; }
/// two names with the same text are the same name (derived Eq on a one-field newtype over Arc<str>)
#[verifier::external_body]
pub broadcast proof fn axiom_identifier_ext(a: Identifier, b: Identifier)
    ensures #[trigger] a@ == #[trigger] b@ ==> a == b
{}
impl PartialEqSpecImpl for Identifier {
    open spec fn obeys_eq_spec() -> bool { true }
    open spec fn eq_spec(&self, other: &Identifier) -> bool { self@ == other@ }
}
impl PartialEq for Identifier {
    #[verifier::external_body]
    fn eq(&self, other: &Identifier) -> (r: bool) { unimplemented!() }
}
impl Eq for Identifier {}
impl Clone for Identifier {
    #[verifier::external_body]
    fn clone(&self) -> (r: Self) ensures r == *self { unimplemented!() }
}

#[verifier::external_body]
pub struct WitnessName { _p: u8 }
impl View for WitnessName { type V = Seq<char>; uninterp spec fn view(&self) -> Seq<char>; }
impl WitnessName {
    #[verifier::external_body]
    pub fn shallow_clone(&self) -> (r: Self) ensures r == *self { unimplemented!() }
}
impl Clone for WitnessName {
    #[verifier::external_body]
    fn clone(&self) -> (r: Self) ensures r == *self { unimplemented!() }
}
