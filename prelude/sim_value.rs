// ---- prelude/sim_value.rs : ASSUMED model of simplicity::ValueRef / simplicity::Value (A-types) ----
/// a reference into a Simplicity value; its view is the mathematical value it points at; two references with the same
/// view are indistinguishable for the code under contract (axiom_valueref_ext)
#[verifier::external_body]
#[derive(Clone, Copy)]
pub struct ValueRef<'a> { _p: core::marker::PhantomData<&'a ()> }
impl<'a> View for ValueRef<'a> { type V = Val; uninterp spec fn view(&self) -> Val; }
pub uninterp spec fn vr_of<'a>(v: Val) -> ValueRef<'a>;
#[verifier::external_body]
pub broadcast proof fn axiom_vr_of_view<'a>(v: Val) ensures (#[trigger] vr_of::<'a>(v))@ == v {}
#[verifier::external_body]
pub broadcast proof fn axiom_valueref_ext<'a>(r: ValueRef<'a>) ensures #[trigger] vr_of::<'a>(r@) == r {}
/// Copy: cloning a ValueRef gives the same reference
#[verifier::external_body]
pub broadcast proof fn axiom_valueref_clone<'a>(a: ValueRef<'a>, b: ValueRef<'a>) ensures #[trigger] call_ensures(ValueRef::<'a>::clone, (&a,), b) ==> a == b {}

impl<'a> ValueRef<'a> {
    #[verifier::external_body]
    pub fn as_product(&self) -> (r: Option<(ValueRef<'a>, ValueRef<'a>)>)
        ensures r == (match self@ { Val::P(a, b) => Some((vr_of::<'a>(*a), vr_of::<'a>(*b))), _ => None::<(ValueRef<'a>, ValueRef<'a>)> })
    { unimplemented!() }
    #[verifier::external_body]
    pub fn as_left(&self) -> (r: Option<ValueRef<'a>>)
        ensures r == (match self@ { Val::L(a) => Some(vr_of::<'a>(*a)), _ => None::<ValueRef<'a>> })
    { unimplemented!() }
    #[verifier::external_body]
    pub fn as_right(&self) -> (r: Option<ValueRef<'a>>)
        ensures r == (match self@ { Val::R(a) => Some(vr_of::<'a>(*a)), _ => None::<ValueRef<'a>> })
    { unimplemented!() }
    #[verifier::external_body]
    pub fn is_unit(&self) -> (r: bool) ensures r == (self@ == Val::Unit) { unimplemented!() }
}

/// either::Either
pub enum Either<L, R> { Left(L), Right(R) }

/// simplicity::Value (owned): opaque; its view is the mathematical value.  Constructors ASSUMED (A-types): each builds the
/// value it is named after; the type arguments of left / right / none only fix the type of the absent side.
#[verifier::external_body]
pub struct SimValue { _p: u8 }
impl View for SimValue { type V = Val; uninterp spec fn view(&self) -> Val; }
impl Clone for SimValue {
    #[verifier::external_body]
    fn clone(&self) -> (r: Self) ensures r == *self { unimplemented!() }
}
