// ---- prelude/simplicity_term.rs : ASSUMED model of simplicity-lang's node constructors (A-simp) ----
// `simplicity::types::{Context, Error}`, `Cmr`, `FailEntropy`, `simplicity::Value` are opaque.
// `CoreConstructible` repeats the signatures of simplicity-lang 0.4 `node::CoreConstructible`;
// each constructor is ASSUMED to build the term it is named after (when it returns Ok).
// Type inference (whether comp/case/pair/assertl/assertr return Ok) is NOT modelled.
pub mod simplicity {
    use super::*;
    pub mod types {
        use super::*;
        #[verifier::external_body]
        pub struct Context { _p: u8 }
        #[verifier::external_body]
        #[derive(Debug)]
        pub struct Error { _p: u8 }
    }
    #[verifier::external_body]
    pub struct Cmr { _p: u8 }
    #[verifier::external_body]
    pub struct FailEntropy { _p: u8 }
    /// simplicity::Value (a bit-level value); view = its mathematical shape
    #[verifier::external_body]
    pub struct Value { _p: u8 }
    impl Value { pub uninterp spec fn view(&self) -> Val; }
    #[verifier::external_body]
    pub struct Word { _p: u8 }
    impl Word { pub uninterp spec fn view(&self) -> Val; }
}
pub use simplicity::types;
pub use simplicity::{Cmr, FailEntropy};

/// opaque identity of a CMR (what a pruned branch is replaced by)
pub uninterp spec fn cmr_id(c: Cmr) -> int;

pub trait CoreConstructible: Sized {
    /// the Simplicity term this node denotes
    spec fn term(&self) -> Term;

    fn iden(inference_context: &types::Context) -> (r: Self) ensures r.term() == Term::Iden;
    fn unit(inference_context: &types::Context) -> (r: Self) ensures r.term() == Term::Unit;
    fn injl(child: &Self) -> (r: Self) ensures r.term() == Term::InjL(bx(child.term()));
    fn injr(child: &Self) -> (r: Self) ensures r.term() == Term::InjR(bx(child.term()));
    fn take(child: &Self) -> (r: Self) ensures r.term() == Term::Take(bx(child.term()));
    fn drop_(child: &Self) -> (r: Self) ensures r.term() == Term::Drop(bx(child.term()));
    fn comp(left: &Self, right: &Self) -> (r: Result<Self, types::Error>)
        ensures r is Ok ==> r->Ok_0.term() == Term::Comp(bx(left.term()), bx(right.term()));
    fn case(left: &Self, right: &Self) -> (r: Result<Self, types::Error>)
        ensures r is Ok ==> r->Ok_0.term() == Term::Case(bx(left.term()), bx(right.term()));
    fn assertl(left: &Self, right: Cmr) -> (r: Result<Self, types::Error>)
        ensures r is Ok ==> r->Ok_0.term() == Term::AssertL(bx(left.term()), cmr_id(right));
    fn assertr(left: Cmr, right: &Self) -> (r: Result<Self, types::Error>)
        ensures r is Ok ==> r->Ok_0.term() == Term::AssertR(cmr_id(left), bx(right.term()));
    fn pair(left: &Self, right: &Self) -> (r: Result<Self, types::Error>)
        ensures r is Ok ==> r->Ok_0.term() == Term::Pair(bx(left.term()), bx(right.term()));
    fn fail(inference_context: &types::Context, entropy: FailEntropy) -> (r: Self) ensures r.term() == Term::Fail;
    fn const_word(inference_context: &types::Context, word: simplicity::Word) -> (r: Self) ensures r.term() == Term::Const(word@);
    fn inference_context(&self) -> &types::Context;
    // provided methods of the real trait, assumed as well
    fn scribe(ctx: &types::Context, value: &simplicity::Value) -> (r: Self) ensures r.term() == Term::Const(value@);
    fn bit_false(inference_context: &types::Context) -> (r: Self) ensures r.term() == Term::InjL(bx(Term::Unit));
    fn bit_true(inference_context: &types::Context) -> (r: Self) ensures r.term() == Term::InjR(bx(Term::Unit));
}

/// crate::ProgNode = Arc<named::ConstructNode>; opaque here
#[verifier::external_body]
pub struct ProgNode { _p: u8 }

impl View for ProgNode {
    type V = Term;
    uninterp spec fn view(&self) -> Term;
}

impl Clone for ProgNode {
    #[verifier::external_body]
    fn clone(&self) -> (r: Self) ensures r@ == self@ { unimplemented!() }
}

impl CoreConstructible for ProgNode {
    open spec fn term(&self) -> Term { self@ }
    #[verifier::external_body] fn iden(inference_context: &types::Context) -> (r: Self) { unimplemented!() }
    #[verifier::external_body] fn unit(inference_context: &types::Context) -> (r: Self) { unimplemented!() }
    #[verifier::external_body] fn injl(child: &Self) -> (r: Self) { unimplemented!() }
    #[verifier::external_body] fn injr(child: &Self) -> (r: Self) { unimplemented!() }
    #[verifier::external_body] fn take(child: &Self) -> (r: Self) { unimplemented!() }
    #[verifier::external_body] fn drop_(child: &Self) -> (r: Self) { unimplemented!() }
    #[verifier::external_body] fn comp(left: &Self, right: &Self) -> (r: Result<Self, types::Error>) { unimplemented!() }
    #[verifier::external_body] fn case(left: &Self, right: &Self) -> (r: Result<Self, types::Error>) { unimplemented!() }
    #[verifier::external_body] fn assertl(left: &Self, right: Cmr) -> (r: Result<Self, types::Error>) { unimplemented!() }
    #[verifier::external_body] fn assertr(left: Cmr, right: &Self) -> (r: Result<Self, types::Error>) { unimplemented!() }
    #[verifier::external_body] fn pair(left: &Self, right: &Self) -> (r: Result<Self, types::Error>) { unimplemented!() }
    #[verifier::external_body] fn fail(inference_context: &types::Context, entropy: FailEntropy) -> (r: Self) { unimplemented!() }
    #[verifier::external_body] fn const_word(inference_context: &types::Context, word: simplicity::Word) -> (r: Self) { unimplemented!() }
    #[verifier::external_body] fn inference_context(&self) -> &types::Context { unimplemented!() }
    #[verifier::external_body] fn scribe(ctx: &types::Context, value: &simplicity::Value) -> (r: Self) { unimplemented!() }
    #[verifier::external_body] fn bit_false(inference_context: &types::Context) -> (r: Self) { unimplemented!() }
    #[verifier::external_body] fn bit_true(inference_context: &types::Context) -> (r: Self) { unimplemented!() }
}

// ---- std::borrow::Borrow (A-std): `T: Borrow<T>` (std's blanket impl) returns the value itself ----
/// what `q.borrow()` denotes
pub uninterp spec fn borrowed<Q: ?Sized, P: ?Sized>(q: &Q) -> &P;
#[verifier::external_trait_specification]
pub trait ExBorrow<Borrowed: ?Sized> {
    type ExternalTraitSpecificationFor: core::borrow::Borrow<Borrowed>;
    fn borrow(&self) -> (r: &Borrowed)
        ensures r == borrowed::<Self, Borrowed>(self);
}
#[verifier::external_body]
pub broadcast proof fn axiom_borrow_refl<T>(q: &T)
    ensures #[trigger] borrowed::<T, T>(q) == q
{}
