// ---- prelude/std_charidx.rs : ASSUMED model of str::char_indices and of slicing a str by byte offsets (A-std) ----
/// byte offset of the k-th character of s (k == s@.len(): the byte length)
pub uninterp spec fn byte_off(s: &str, k: int) -> usize;
/// byte offsets of characters are strictly increasing
#[verifier::external_body]
pub broadcast proof fn axiom_byte_off_increasing(s: &str, j: int, k: int)
    requires 0 <= j < k <= s@.len()
    ensures #[trigger] byte_off(s, j) < #[trigger] byte_off(s, k)
{}

/// `s.char_indices()` (R-sub): yields (byte offset, character) for every character, in order
#[verifier::external_body]
pub struct CharIdx<'a> { _p: core::marker::PhantomData<&'a str> }
impl<'a> CharIdx<'a> {
    pub uninterp spec fn rem(&self) -> Seq<(usize, char)>;
    #[verifier::external_body]
    pub fn next(&mut self) -> (r: Option<(usize, char)>)
        ensures
            old(self).rem().len() == 0 ==> r is None && final(self).rem() == old(self).rem(),
            old(self).rem().len() > 0 ==> r == Some(old(self).rem()[0]) && final(self).rem() == old(self).rem().skip(1),
    { unimplemented!() }
}
pub open spec fn char_idx_seq(s: &str) -> Seq<(usize, char)> { Seq::new(s@.len(), |k: int| (byte_off(s, k), s@[k])) }
#[verifier::external_body]
pub fn char_indices_of<'a>(s: &'a str) -> (it: CharIdx<'a>)
    ensures it.rem() == char_idx_seq(s), s@.len() <= isize::MAX      // a str holds at most isize::MAX bytes, hence characters
{ unimplemented!() }

/// `&s[a..b]` (R-sub): a and b must be character boundaries with a <= b (std panics otherwise); the result holds the characters in between
#[verifier::external_body]
pub fn str_slice<'a>(s: &'a str, a: usize, b: usize, Ghost(ka): Ghost<int>, Ghost(kb): Ghost<int>) -> (r: &'a str)
    requires 0 <= ka <= kb <= s@.len(), a == byte_off(s, ka), b == byte_off(s, kb),
    ensures r@ == s@.subrange(ka, kb)
{ &s[a..b] }

/// `s.len()` (R14: byte length): the byte offset one past the last character
#[verifier::external_body]
pub fn str_byte_len(s: &str) -> (r: usize) ensures r == byte_off(s, s@.len() as int) { s.len() }
