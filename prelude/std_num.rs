// ---- prelude/std_num.rs : ASSUMED specifications of std integer functions (A-std) ----
pub assume_specification[ usize::is_power_of_two ](x: usize) -> (r: bool)
    ensures r == is_pow2(x as nat);

pub assume_specification[ usize::next_power_of_two ](x: usize) -> (r: usize)
    requires npo2(x as nat) <= usize::MAX,
    ensures r as nat == npo2(x as nat);

pub assume_specification[ usize::trailing_zeros ](x: usize) -> (r: u32)
    ensures x == 0 ==> r == usize::BITS,
            x != 0 ==> r < usize::BITS,
            is_pow2(x as nat) ==> pow2(r as nat) == x && r as nat == log2f(x as nat);

// further std integer functions a rewrite of the helpers may reach for (ASSUMED, A-std)
pub assume_specification[ usize::div_ceil ](a: usize, b: usize) -> (r: usize)
    requires b > 0,
    ensures r as int == (a as int + b as int - 1) / (b as int);

pub assume_specification[ usize::count_ones ](x: usize) -> (r: u32)
    ensures r <= usize::BITS, (r == 0) == (x == 0), (r == 1) == is_pow2(x as nat);

pub assume_specification[ usize::ilog2 ](x: usize) -> (r: u32)
    requires x > 0,
    ensures r < usize::BITS, pow2(r as nat) <= x, (x as nat) < 2 * pow2(r as nat);

pub assume_specification[ usize::leading_zeros ](x: usize) -> (r: u32)
    ensures x == 0 ==> r == usize::BITS,
            x != 0 ==> r < usize::BITS && pow2((usize::BITS - 1 - r) as nat) <= x && (x as nat) < 2 * pow2((usize::BITS - 1 - r) as nat);

pub assume_specification[ usize::abs_diff ](a: usize, b: usize) -> (r: usize)
    ensures r == (if a >= b { a - b } else { b - a });

pub assume_specification[ usize::div_euclid ](a: usize, b: usize) -> (r: usize)
    requires b > 0,
    ensures r == a / b;

pub assume_specification[ usize::rem_euclid ](a: usize, b: usize) -> (r: usize)
    requires b > 0,
    ensures r == a % b;
