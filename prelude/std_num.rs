// ---- prelude/std_num.rs : ASSUMED specifications of std integer functions (A-std) ----
pub assume_specification[ usize::is_power_of_two ](x: usize) -> (r: bool)
    ensures r == is_pow2(x as nat);

pub assume_specification[ usize::next_power_of_two ](x: usize) -> (r: usize)
    requires npo2(x as nat) <= usize::MAX,
    ensures r as nat == npo2(x as nat);

pub assume_specification[ usize::trailing_zeros ](x: usize) -> (r: u32)
    ensures x == 0 ==> r == usize::BITS,
            x != 0 ==> r < usize::BITS,
            is_pow2(x as nat) ==> pow2(r as nat) == x;
