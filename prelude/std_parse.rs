// ---- prelude/std_parse.rs : ASSUMED specs of std integer parsing / byte conversion (A-std) ----
#[verifier::external_type_specification]
#[verifier::external_body]
pub struct ExStdParseIntError(core::num::ParseIntError);

/// `str::parse::<F>` is `F::from_str`
pub assume_specification<F: FromStr>[ str::parse::<F> ](s: &str) -> (r: Result<F, F::Err>)
    ensures call_ensures(F::from_str, (s,), r);

/// std integer parsing restricted to all-digit input (the only input the literal code passes: A-pest):
/// Ok exactly for non-empty digit strings whose value fits, and then that value
pub open spec fn std_parse_ok(s: Seq<char>, max: nat) -> bool { s.len() > 0 && dec_val(s) <= max }

pub assume_specification[ <u8 as FromStr>::from_str ](s: &str) -> (r: Result<u8, core::num::ParseIntError>)
    ensures all_dec(s@) ==> ((r is Ok) == std_parse_ok(s@, u8::MAX as nat) && (r is Ok ==> r->Ok_0 as nat == dec_val(s@)));
pub assume_specification[ <u16 as FromStr>::from_str ](s: &str) -> (r: Result<u16, core::num::ParseIntError>)
    ensures all_dec(s@) ==> ((r is Ok) == std_parse_ok(s@, u16::MAX as nat) && (r is Ok ==> r->Ok_0 as nat == dec_val(s@)));
pub assume_specification[ <u32 as FromStr>::from_str ](s: &str) -> (r: Result<u32, core::num::ParseIntError>)
    ensures all_dec(s@) ==> ((r is Ok) == std_parse_ok(s@, u32::MAX as nat) && (r is Ok ==> r->Ok_0 as nat == dec_val(s@)));
pub assume_specification[ <u64 as FromStr>::from_str ](s: &str) -> (r: Result<u64, core::num::ParseIntError>)
    ensures all_dec(s@) ==> ((r is Ok) == std_parse_ok(s@, u64::MAX as nat) && (r is Ok ==> r->Ok_0 as nat == dec_val(s@)));
pub assume_specification[ <u128 as FromStr>::from_str ](s: &str) -> (r: Result<u128, core::num::ParseIntError>)
    ensures all_dec(s@) ==> ((r is Ok) == std_parse_ok(s@, u128::MAX as nat) && (r is Ok ==> r->Ok_0 as nat == dec_val(s@)));

// uN::from_be_bytes cannot be given an assume_specification (its parameter type is an anonymous const expression);
// TryFrom<&[u8]> for UIntValue is therefore decided by a loop-free Kani harness (complete over all byte strings of length <= 33).

/// Result::and_then (A-std)
pub assume_specification<T, E, U, F: FnOnce(T) -> Result<U, E>>[ Result::<T, E>::and_then ](r: Result<T, E>, op: F) -> (res: Result<U, E>)
    requires r is Ok ==> op.requires((r->Ok_0,)),
    ensures match r { Ok(t) => op.ensures((t,), res), Err(e) => res == Err::<U, E>(e) };

/// `<Vec<T> as AsRef<[T]>>::as_ref` (A-std): the same elements
pub assume_specification<T, A: core::alloc::Allocator>[ <Vec<T, A> as AsRef<[T]>>::as_ref ](v: &Vec<T, A>) -> (r: &[T])
    ensures r@ == v@;
