// ---- prelude/std_slice.rs : slices are determined by their contents (A-std: slice extensionality) ----
/// the slice whose contents are s
pub uninterp spec fn slice_of<'a, A>(s: Seq<A>) -> &'a [A];
#[verifier::external_body]
pub broadcast proof fn axiom_slice_of_view<A>(s: Seq<A>)
    ensures (#[trigger] slice_of::<A>(s))@ == s
{}
#[verifier::external_body]
pub broadcast proof fn axiom_slice_ext<A>(x: &[A])
    ensures #[trigger] slice_of::<A>(x@) == x
{}
