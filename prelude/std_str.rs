// ---- prelude/std_str.rs : ASSUMED specifications of std string / char functions (A-std) ----
/// the characters a `Chars` iterator has still to yield (vstd's own model of `Chars`)
#[verifier::prophetic]
pub open spec fn chars_rem(c: &core::str::Chars) -> Seq<char> { vstd::std_specs::iter::IteratorSpec::remaining(c) }
// str::chars and Chars::next are specified by vstd:  chars(s).remaining() == s@,  next() yields remaining()[0]

pub assume_specification<'a>[ <core::str::Chars<'a> as Iterator>::count ](c: core::str::Chars<'a>) -> (r: usize)
    ensures r == chars_rem(&c).len();

/// `p` (a value of some `Pattern` type) is the single-character pattern `c`
pub uninterp spec fn pat_is_char<P>(p: P, c: char) -> bool;
/// a `char` used as a pattern matches exactly itself
#[verifier::external_body]
pub proof fn axiom_pat_is_char(c: char)
    ensures pat_is_char::<char>(c, c)
{}

pub assume_specification<'a, P: core::str::pattern::Pattern>[ str::trim_start_matches::<P> ](s: &'a str, p: P) -> (r: &'a str)
    ensures pat_is_char::<P>(p, '0') ==> r@ == strip0(s@);

pub assume_specification[ char::to_digit ](c: char, radix: u32) -> (r: Option<u32>)
    ensures radix == 10 ==> r == (if is_dec(c) { Some(dval(c) as u32) } else { None::<u32> });

/// `str::len` (byte length): for ASCII-only strings the number of bytes is the number of characters (A-std).
/// Calls are redirected here by rule R14 because vstd's own specification of `str::len` says nothing about the result.
#[verifier::external_body]
pub fn str_len(s: &str) -> (r: usize)
    ensures (forall|i: int| 0 <= i < s@.len() ==> (#[trigger] s@[i] as u32) < 128) ==> r == s@.len()
{ s.len() }
