// ---- prelude/traits.rs : external traits the extracted impls implement (declared to Verus, not re-defined) ----
#[verifier::external_trait_specification]
pub trait ExFromStr: Sized {
    type ExternalTraitSpecificationFor: core::str::FromStr;
    type Err;
    fn from_str(s: &str) -> Result<Self, Self::Err>;
}
