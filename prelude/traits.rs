// ---- prelude/traits.rs : mirror declarations of external traits (R0 re-homing) ----
// The impls extracted from /repo are type-checked against these declarations, which
// repeat the std / miniscript signatures.
pub trait FromStr: Sized {
    type Err;
    fn from_str(s: &str) -> Result<Self, Self::Err>;
}
