// ---- prelude/types_abs.rs : ASSUMED model of crate types that Verus cannot take as they are (R7 / A-types) ----
// `Decimal`, `Binary`, `Hexadecimal` (src/str.rs, `Arc<str>` newtypes): opaque, view = the text, `as_inner` returns it.
#[verifier::external_body] pub struct Decimal { _p: u8 }
#[verifier::external_body] pub struct Binary { _p: u8 }
#[verifier::external_body] pub struct Hexadecimal { _p: u8 }
impl View for Decimal { type V = Seq<char>; uninterp spec fn view(&self) -> Seq<char>; }
impl View for Binary { type V = Seq<char>; uninterp spec fn view(&self) -> Seq<char>; }
impl View for Hexadecimal { type V = Seq<char>; uninterp spec fn view(&self) -> Seq<char>; }
impl Decimal { #[verifier::external_body] pub fn as_inner(&self) -> (r: &str) ensures r@ == self@ { unimplemented!() } }
impl Binary { #[verifier::external_body] pub fn as_inner(&self) -> (r: &str) ensures r@ == self@ { unimplemented!() } }
impl Hexadecimal { #[verifier::external_body] pub fn as_inner(&self) -> (r: &str) ensures r@ == self@ { unimplemented!() } }

/// `ResolvedType(TypeInner<Arc<Self>>)`: Verus rejects the recursive newtype, so the type is opaque with an
/// uninterpreted `inner()`; `as_inner` / `as_integer` / `clone` / `From<UIntType>` are assumed to agree with it.
#[verifier::external_body]
pub struct ResolvedType { _p: u8 }
impl ResolvedType {
    pub uninterp spec fn inner(&self) -> TypeInner<Arc<ResolvedType>>;
    #[verifier::external_body]
    pub fn as_inner(&self) -> (r: &TypeInner<Arc<ResolvedType>>) ensures *r == self.inner() { unimplemented!() }
    pub open spec fn as_integer_spec(&self) -> Option<UIntType> { match self.inner() { TypeInner::UInt(i) => Some(i), _ => None::<UIntType> } }
    #[verifier::external_body]
    pub fn as_integer(&self) -> (r: Option<UIntType>)
        ensures r == self.as_integer_spec()
    { unimplemented!() }
}
impl Clone for ResolvedType {
    #[verifier::external_body]
    fn clone(&self) -> (r: Self) ensures r == *self { unimplemented!() }
}
#[verifier::external_body]
pub fn resolved_from_uint(i: UIntType) -> (r: ResolvedType) ensures r.inner() == TypeInner::<Arc<ResolvedType>>::UInt(i) { unimplemented!() }

/// mirror of the variants of `crate::error::Error` that the contracted code constructs (the payloads are never inspected by a contract)
pub enum Error {
    IntegerOutOfBounds(UIntType),
    BitStringPow2(usize),
    ExpressionTypeMismatch(ResolvedType, ResolvedType),
    ExpressionUnexpectedType(ResolvedType),
    CannotParse,
}
impl From<core::num::ParseIntError> for Error {
    #[verifier::external_body]
    fn from(error: core::num::ParseIntError) -> (r: Self) { Error::CannotParse }
}
impl From<ParseIntError> for Error {
    #[verifier::external_body]
    fn from(error: ParseIntError) -> (r: Self) { Error::CannotParse }
}

/// `miniscript::bitcoin::hex::FromHex for Vec<u8>` (hex-conservative): ASSUMED to succeed exactly on even-length
/// strings of hex digits and to return the bytes the digit pairs denote, in order
pub mod miniscript { pub mod bitcoin { pub mod hex {
    use super::super::super::*;
    #[verifier::external_body]
    #[derive(Debug)]
    pub struct HexToBytesError { _p: u8 }
    pub trait FromHex: Sized {
        fn from_hex(s: &str) -> Result<Self, HexToBytesError>;
    }
    impl FromHex for Vec<u8> {
        #[verifier::external_body]
        fn from_hex(s: &str) -> (r: Result<Self, HexToBytesError>)
            ensures
                (r is Ok) == (s@.len() % 2 == 0 && all_hex(s@)),
                r is Ok ==> r->Ok_0@ == hex_bytes(s@),
        { unimplemented!() }
    }
} } }

/// `crate::value::Value` is opaque (its `ValueInner` is a deep recursive enum over Arc slices)
#[verifier::external_body]
pub struct Value { _p: u8 }
impl Value {
    /// the integer a value is, if it is one
    pub uninterp spec fn as_uint(&self) -> Option<UIntValue>;
    /// the bytes of a `[u8; n]` value, if it is one
    pub uninterp spec fn as_byte_array(&self) -> Option<Seq<u8>>;
    /// R4: `ValueConstructible::byte_array<I: IntoIterator<Item = u8>>` at I = Vec<u8> (the only instantiation used here)
    #[verifier::external_body]
    pub fn byte_array(bytes: Vec<u8>) -> (r: Self)
        ensures r.as_byte_array() == Some(bytes@), r.as_uint() is None
    { unimplemented!() }
}
impl From<UIntValue> for Value {
    #[verifier::external_body]
    fn from(value: UIntValue) -> (r: Self)
        ensures r.as_uint() == Some(value), r.as_byte_array() is None
    { unimplemented!() }
}
