use vstd::prelude::*;
verus! {

pub enum Val { Unit, L(Box<Val>), R(Box<Val>), P(Box<Val>, Box<Val>) }

pub enum Term {
    Iden, Unit,
    InjL(Box<Term>), InjR(Box<Term>),
    Take(Box<Term>), Drop(Box<Term>),
    Comp(Box<Term>, Box<Term>),
    Case(Box<Term>, Box<Term>),
    Pair(Box<Term>, Box<Term>),
    Fail,
    Opaque(int),
}

pub uninterp spec fn opaque_sem(k: int, v: Val) -> Option<Val>;

pub open spec fn pv(a: Val, b: Val) -> Val { Val::P(Box::new(a), Box::new(b)) }

pub open spec fn eval(t: Term, v: Val) -> Option<Val>
    decreases t
{
    match t {
        Term::Iden => Some(v),
        Term::Unit => Some(Val::Unit),
        Term::InjL(s) => match eval(*s, v) { Some(w) => Some(Val::L(Box::new(w))), None => None },
        Term::InjR(s) => match eval(*s, v) { Some(w) => Some(Val::R(Box::new(w))), None => None },
        Term::Take(s) => match v { Val::P(a, b) => eval(*s, *a), _ => None },
        Term::Drop(s) => match v { Val::P(a, b) => eval(*s, *b), _ => None },
        Term::Comp(s, u) => match eval(*s, v) { Some(w) => eval(*u, w), None => None },
        Term::Pair(s, u) => match eval(*s, v) {
            Some(a) => match eval(*u, v) { Some(b) => Some(pv(a, b)), None => None },
            None => None },
        Term::Case(s, u) => match v {
            Val::P(x, c) => match *x {
                Val::L(a) => eval(*s, pv(*a, *c)),
                Val::R(b) => eval(*u, pv(*b, *c)),
                _ => None },
            _ => None },
        Term::Fail => None,
        Term::Opaque(k) => opaque_sem(k, v),
    }
}

// ---------- spec: layouts ----------
pub open spec fn is_pow2(n: nat) -> bool decreases n {
    if n == 0 { false } else if n == 1 { true } else { n % 2 == 0 && is_pow2(n / 2) }
}

// array of exactly n = 2^k elements: perfect halves
pub open spec fn arr_val(es: Seq<Val>) -> Val decreases es.len() {
    if es.len() <= 1 { if es.len() == 1 { es[0] } else { Val::Unit } }
    else { let h = (es.len() / 2) as int; pv(arr_val(es.take(h)), arr_val(es.skip(h))) }
}

pub open spec fn list_val(es: Seq<Val>, bound: nat) -> Val decreases bound {
    if bound <= 2 {
        if es.len() == 0 { Val::L(Box::new(Val::Unit)) } else { Val::R(Box::new(es[0])) }
    } else {
        let b = (bound / 2) as int;
        if es.len() < b { pv(Val::L(Box::new(Val::Unit)), list_val(es, (bound / 2) as nat)) }
        else { pv(Val::R(Box::new(arr_val(es.take(b)))), list_val(es.skip(b), (bound / 2) as nat)) }
    }
}

pub open spec fn foldl(f: Term, es: Seq<Val>, acc: Option<Val>) -> Option<Val> decreases es.len() {
    if acc is None { None }
    else if es.len() == 0 { acc }
    else { foldl(f, es.skip(1), eval(f, pv(es[0], acc->Some_0))) }
}

pub proof fn lemma_foldl_none(f: Term, es: Seq<Val>)
    ensures foldl(f, es, None) is None
{}

pub proof fn lemma_foldl_append(f: Term, xs: Seq<Val>, ys: Seq<Val>, acc: Option<Val>)
    ensures foldl(f, xs + ys, acc) == foldl(f, ys, foldl(f, xs, acc))
    decreases xs.len()
{
    if acc is None {
    } else if xs.len() == 0 {
        assert(xs + ys =~= ys);
    } else {
        assert((xs + ys).skip(1) =~= xs.skip(1) + ys);
        assert((xs + ys)[0] == xs[0]);
        lemma_foldl_append(f, xs.skip(1), ys, eval(f, pv(xs[0], acc->Some_0)));
    }
}

// ---------- assumed API ----------
#[verifier::external_body]
pub struct ProgNode { x: u8 }
#[verifier::external_body]
pub struct Context { x: u8 }
#[verifier::external_body]
pub struct TypesError { x: u8 }

pub open spec fn bx(t: Term) -> Box<Term> { Box::new(t) }

impl ProgNode {
    pub uninterp spec fn view(&self) -> Term;
    #[verifier::external_body]
    pub fn inference_context(&self) -> (r: &Context) { unimplemented!() }
    #[verifier::external_body]
    pub fn clone(&self) -> (r: Self) ensures r@ == self@ { unimplemented!() }
    #[verifier::external_body]
    pub fn drop_(c: &Self) -> (r: Self) ensures r@ == Term::Drop(bx(c@)) { unimplemented!() }
    #[verifier::external_body]
    pub fn case(l: &Self, r: &Self) -> (res: Result<Self, TypesError>) ensures res is Ok ==> res->Ok_0@ == Term::Case(bx(l@), bx(r@)) { unimplemented!() }
    // selectors (in the real run these are the verified SelectorBuilder/PairBuilder code)
    pub fn o() -> (r: SelectorBuilder) ensures r.selection@ == Seq::<bool>::empty().push(false) { SelectorBuilder { selection: Vec::new() }.o() }
    pub fn i() -> (r: SelectorBuilder) ensures r.selection@ == Seq::<bool>::empty().push(true) { SelectorBuilder { selection: Vec::new() }.i() }
}

pub struct SelectorBuilder { pub selection: Vec<bool> }
pub open spec fn path_term(sel: Seq<bool>) -> Term decreases sel.len() {
    if sel.len() == 0 { Term::Iden }
    else if sel[0] { Term::Drop(bx(path_term(sel.skip(1)))) } else { Term::Take(bx(path_term(sel.skip(1)))) }
}
impl SelectorBuilder {
    #[verifier::external_body]
    pub fn o(self) -> (r: Self) ensures r.selection@ == self.selection@.push(false) { unimplemented!() }
    #[verifier::external_body]
    pub fn i(self) -> (r: Self) ensures r.selection@ == self.selection@.push(true) { unimplemented!() }
    #[verifier::external_body]
    pub fn h(self, ctx: &Context) -> (r: PairBuilder) ensures r.0@ == path_term(self.selection@) { unimplemented!() }
}
pub struct PairBuilder(pub ProgNode);
impl PairBuilder {
    #[verifier::external_body]
    pub fn pair(self, other: Self) -> (r: Self) ensures r.0@ == Term::Pair(bx(self.0@), bx(other.0@)) { unimplemented!() }
    #[verifier::external_body]
    pub fn comp(self, other: &ProgNode) -> (res: Result<Self, TypesError>) ensures res is Ok ==> res->Ok_0.0@ == Term::Comp(bx(self.0@), bx(other@)) { unimplemented!() }
    pub fn build(self) -> (r: ProgNode) ensures r@ == self.0@ { self.0 }
    pub fn as_ref(&self) -> (r: &ProgNode) ensures r@ == self.0@ { &self.0 }
}

// ---------- real code (compile.rs) ----------
    fn next_f_array(f_array: &ProgNode) -> (res: Result<ProgNode, TypesError>)
        ensures res is Ok ==> forall|h1: Val, h2: Val, a: Val|
            #[trigger] eval(res->Ok_0@, pv(pv(h1, h2), a)) ==
              match eval(f_array@, pv(h1, a)) { Some(a1) => eval(f_array@, pv(h2, a1)), None => None }
    {
        let ctx = f_array.inference_context();
        let half1_acc = ProgNode::o().o().h(ctx).pair(ProgNode::i().h(ctx));
        let updated_acc = half1_acc.comp(f_array)?;
        let half2_acc = ProgNode::o().i().h(ctx).pair(updated_acc);
        let ghost t2v = half2_acc.0@;
        let c = half2_acc.comp(f_array);
        let r = c.map(PairBuilder::build);
        assert(r is Ok ==> c is Ok && r->Ok_0@ == c->Ok_0.0@);
        proof {
            if r is Ok {
                let s_oo0 = seq![false, false]; let s_i0 = seq![true]; let s_oi0 = seq![false, true];
                assert(Seq::<bool>::empty().push(false).push(false) =~= s_oo0);
                assert(Seq::<bool>::empty().push(true) =~= s_i0);
                assert(Seq::<bool>::empty().push(false).push(true) =~= s_oi0);
                assert(r->Ok_0@ == Term::Comp(bx(Term::Pair(bx(path_term(s_oi0)), bx(Term::Comp(bx(Term::Pair(bx(path_term(s_oo0)), bx(path_term(s_i0)))), bx(f_array@))))), bx(f_array@)));
                assert forall|h1: Val, h2: Val, a: Val|
                    #[trigger] eval(r->Ok_0@, pv(pv(h1, h2), a)) ==
                    match eval(f_array@, pv(h1, a)) { Some(a1) => eval(f_array@, pv(h2, a1)), None => None } by {
                    let v = pv(pv(h1, h2), a);
                    let s_oo = seq![false, false]; let s_i = seq![true]; let s_oi = seq![false, true];
                    assert(Seq::<bool>::empty().push(false).push(false) =~= s_oo);
                    assert(Seq::<bool>::empty().push(true) =~= s_i);
                    assert(Seq::<bool>::empty().push(false).push(true) =~= s_oi);
                    reveal_with_fuel(path_term, 3); reveal_with_fuel(eval, 6);
                    assert(s_oo.skip(1) =~= seq![false]); assert(seq![false].skip(1) =~= Seq::<bool>::empty());
                    assert(s_oi.skip(1) =~= seq![true]); assert(seq![true].skip(1) =~= Seq::<bool>::empty());
                    assert(eval(path_term(s_oo), v) == Some(h1));
                    assert(eval(path_term(s_i), v) == Some(a));
                    assert(eval(path_term(s_oi), v) == Some(h2));
                    let fa = f_array@;
                    let t_h1 = Term::Pair(bx(path_term(s_oo)), bx(path_term(s_i)));
                    assert(eval(t_h1, v) == Some(pv(h1, a)));
                    let t_upd = Term::Comp(bx(t_h1), bx(fa));
                    assert(eval(t_upd, v) == eval(fa, pv(h1, a)));
                    let t_h2 = Term::Pair(bx(path_term(s_oi)), bx(t_upd));
                    let t_all = Term::Comp(bx(t_h2), bx(fa));
                    assert(r->Ok_0@ == t_all);
                    match eval(fa, pv(h1, a)) {
                        Some(a1) => {
                            assert(eval(t_h2, v) == Some(pv(h2, a1)));
                            assert(eval(t_all, v) == eval(fa, pv(h2, a1)));
                        }
                        None => {
                            assert(eval(t_h2, v) is None);
                            assert(eval(t_all, v) is None);
                        }
                    }
                }
            }
        }
        r
    }

    pub open spec fn sel(v: Val, p: Seq<bool>) -> Option<Val> decreases p.len() {
        if p.len() == 0 { Some(v) } else { match v { Val::P(a, b) => if p[0] { sel(*b, p.skip(1)) } else { sel(*a, p.skip(1)) }, _ => None } }
    }
    pub proof fn lemma_path(p: Seq<bool>, v: Val)
        ensures eval(path_term(p), v) == sel(v, p)
        decreases p.len()
    {
        if p.len() == 0 {} else {
            match v { Val::P(a, b) => { if p[0] { lemma_path(p.skip(1), *b); } else { lemma_path(p.skip(1), *a); } }, _ => {} }
        }
    }

    fn next_f_fold(f_array: &ProgNode, f_fold: &ProgNode) -> (res: Result<ProgNode, TypesError>)
        ensures res is Ok ==> forall|x: Val, rest: Val, a: Val|
            #[trigger] eval(res->Ok_0@, pv(pv(x, rest), a)) ==
              match x {
                Val::L(u) => eval(f_fold@, pv(rest, a)),
                Val::R(b) => match eval(f_array@, pv(*b, a)) { Some(a1) => eval(f_fold@, pv(rest, a1)), None => None },
                _ => None,
              }
    {
        let ctx = f_array.inference_context();
        let case_input = ProgNode::o()
            .o()
            .h(ctx)
            .pair(ProgNode::o().i().h(ctx).pair(ProgNode::i().h(ctx)));
        let case_left = ProgNode::drop_(f_fold);

        let f_n_input = ProgNode::o().h(ctx).pair(ProgNode::i().i().h(ctx));
        let f_n_output = f_n_input.comp(f_array)?;
        let fold_n_input = ProgNode::i().o().h(ctx).pair(f_n_output);
        let case_right = fold_n_input.comp(f_fold)?;

        let r = case_input
            .comp(&ProgNode::case(&case_left, case_right.as_ref())?)
            .map(PairBuilder::build);
        proof {
            if r is Ok {
                let s_oo = seq![false, false]; let s_oi = seq![false, true]; let s_i = seq![true];
                let s_o = seq![false]; let s_ii = seq![true, true]; let s_io = seq![true, false];
                assert(Seq::<bool>::empty().push(false).push(false) =~= s_oo);
                assert(Seq::<bool>::empty().push(false).push(true) =~= s_oi);
                assert(Seq::<bool>::empty().push(true) =~= s_i);
                assert(Seq::<bool>::empty().push(false) =~= s_o);
                assert(Seq::<bool>::empty().push(true).push(true) =~= s_ii);
                assert(Seq::<bool>::empty().push(true).push(false) =~= s_io);
                let fa = f_array@; let ff = f_fold@;
                let t_in = Term::Pair(bx(path_term(s_oo)), bx(Term::Pair(bx(path_term(s_oi)), bx(path_term(s_i)))));
                let t_left = Term::Drop(bx(ff));
                let t_fn_in = Term::Pair(bx(path_term(s_o)), bx(path_term(s_ii)));
                let t_fn_out = Term::Comp(bx(t_fn_in), bx(fa));
                let t_fold_in = Term::Pair(bx(path_term(s_io)), bx(t_fn_out));
                let t_right = Term::Comp(bx(t_fold_in), bx(ff));
                let t_case = Term::Case(bx(t_left), bx(t_right));
                let t_all = Term::Comp(bx(t_in), bx(t_case));
                assert(r->Ok_0@ == t_all);
                assert forall|x: Val, rest: Val, a: Val|
                    #[trigger] eval(t_all, pv(pv(x, rest), a)) ==
                      match x {
                        Val::L(u) => eval(ff, pv(rest, a)),
                        Val::R(b) => match eval(fa, pv(*b, a)) { Some(a1) => eval(ff, pv(rest, a1)), None => None },
                        _ => None,
                      } by {
                    let v = pv(pv(x, rest), a);
                    lemma_path(s_oo, v); lemma_path(s_oi, v); lemma_path(s_i, v);
                    reveal_with_fuel(sel, 3);
                    assert(s_oo.skip(1) =~= seq![false]); assert(seq![false].skip(1) =~= Seq::<bool>::empty());
                    assert(s_oi.skip(1) =~= seq![true]); assert(seq![true].skip(1) =~= Seq::<bool>::empty());
                    assert(sel(v, s_oo) == Some(x));
                    assert(sel(v, s_oi) == Some(rest));
                    assert(sel(v, s_i) == Some(a));
                    let w = pv(x, pv(rest, a));
                    assert(eval(Term::Pair(bx(path_term(s_oi)), bx(path_term(s_i))), v) == Some(pv(rest, a)));
                    assert(eval(t_in, v) == Some(w));
                    assert(eval(t_all, v) == eval(t_case, w));
                    match x {
                        Val::L(u) => {
                            let w1 = pv(*u, pv(rest, a));
                            assert(eval(t_case, w) == eval(t_left, w1));
                            assert(eval(t_left, w1) == eval(ff, pv(rest, a)));
                        }
                        Val::R(b) => {
                            let w1 = pv(*b, pv(rest, a));
                            assert(eval(t_case, w) == eval(t_right, w1));
                            lemma_path(s_o, w1); lemma_path(s_ii, w1); lemma_path(s_io, w1);
                            assert(s_ii.skip(1) =~= seq![true]);
                            assert(s_io.skip(1) =~= seq![false]);
                            assert(s_o.skip(1) =~= Seq::<bool>::empty());
                            assert(sel(w1, s_o) == Some(*b));
                            assert(sel(w1, s_ii) == Some(a));
                            assert(sel(w1, s_io) == Some(rest));
                            assert(eval(t_fn_in, w1) == Some(pv(*b, a)));
                            assert(eval(t_fn_out, w1) == eval(fa, pv(*b, a)));
                            match eval(fa, pv(*b, a)) {
                                Some(a1) => {
                                    assert(eval(t_fold_in, w1) == Some(pv(rest, a1)));
                                    assert(eval(t_right, w1) == eval(ff, pv(rest, a1)));
                                }
                                None => {
                                    assert(eval(t_fold_in, w1) is None);
                                    assert(eval(t_right, w1) is None);
                                }
                            }
                        }
                        _ => { assert(eval(t_case, w) is None); }
                    }
                }
            }
        }
        r
    }

    pub struct NonZeroPow2Usize(pub usize);
    impl NonZeroPow2Usize {
        pub open spec fn wf(self) -> bool { is_pow2(self.0 as nat) && 1 < self.0 }
        #[verifier::external_body]
        pub fn two() -> (r: Self) ensures r.0 == 2 { unimplemented!() }
        #[verifier::external_body]
        pub fn lt(&self, o: &Self) -> (r: bool) ensures r == (self.0 < o.0) { unimplemented!() }
        #[verifier::external_body]
        pub fn mul2(self) -> (r: Self) requires self.wf(), self.0 * 2 <= usize::MAX ensures r.0 == self.0 * 2, r.wf() { unimplemented!() }
    }

    pub proof fn lemma_pow2_lt(i: nat, b: nat)
        requires is_pow2(i), is_pow2(b), i < b
        ensures 2 * i <= b
        decreases b
    {
        reveal_with_fuel(is_pow2, 2);
        if i == 1 { } else { lemma_pow2_lt(i / 2, b / 2); }
    }

    pub open spec fn inv_array(fa: Term, f: Term, n: nat) -> bool {
        forall|es: Seq<Val>, a: Val| es.len() == n ==> #[trigger] eval(fa, pv(arr_val(es), a)) == foldl(f, es, Some(a))
    }
    pub open spec fn inv_fold(ff: Term, f: Term, b: nat) -> bool {
        forall|es: Seq<Val>, a: Val| es.len() < b ==> #[trigger] eval(ff, pv(list_val(es, b), a)) == foldl(f, es, Some(a))
    }

    pub proof fn lemma_foldl_one(f: Term, es: Seq<Val>, a: Val)
        requires es.len() == 1
        ensures foldl(f, es, Some(a)) == eval(f, pv(es[0], a))
    {
        reveal_with_fuel(foldl, 2);
        assert(es.skip(1).len() == 0);
        let x = eval(f, pv(es[0], a));
        if x is None { } else { }
    }

    fn list_fold(bound: NonZeroPow2Usize, f: &ProgNode) -> (res: Result<ProgNode, TypesError>)
        requires bound.wf()
        ensures res is Ok ==> inv_fold(res->Ok_0@, f@, bound.0 as nat)
    {
        let mut f_array = f.clone();
        let ctx = f.inference_context();
        let ioh = ProgNode::i().h(ctx);
        let mut f_fold = ProgNode::case(ioh.as_ref(), &f_array)?;
        let mut i = NonZeroPow2Usize::two();

        proof {
            reveal_with_fuel(is_pow2, 3);
            assert(is_pow2(2));
            // base: inv_array(f, f, 1)
            assert forall|es: Seq<Val>, a: Val| es.len() == 1 implies #[trigger] eval(f_array@, pv(arr_val(es), a)) == foldl(f@, es, Some(a)) by {
                lemma_foldl_one(f@, es, a);
            }
            // base: inv_fold(case IH f, f, 2)
            let s_i = seq![true];
            assert(Seq::<bool>::empty().push(true) =~= s_i);
            assert forall|es: Seq<Val>, a: Val| es.len() < 2 implies #[trigger] eval(f_fold@, pv(list_val(es, 2), a)) == foldl(f@, es, Some(a)) by {
                let v = pv(list_val(es, 2), a);
                if es.len() == 0 {
                    let w = pv(Val::Unit, a);
                    lemma_path(s_i, w);
                    reveal_with_fuel(sel, 2);
                    assert(s_i.skip(1) =~= Seq::<bool>::empty());
                    assert(eval(f_fold@, v) == eval(path_term(s_i), w));
                } else {
                    lemma_foldl_one(f@, es, a);
                    assert(eval(f_fold@, v) == eval(f@, pv(es[0], a)));
                }
            }
        }

        while i.lt(&bound)
            invariant
                i.wf(), bound.wf(), i.0 <= bound.0,
                inv_array(f_array@, f@, (i.0 / 2) as nat),
                inv_fold(f_fold@, f@, i.0 as nat),
            decreases bound.0 - i.0
        {
            let ghost fa0 = f_array@; let ghost ff0 = f_fold@; let ghost n = (i.0 / 2) as nat;
            proof { lemma_pow2_lt(i.0 as nat, bound.0 as nat); reveal_with_fuel(is_pow2, 2); }
            f_array = next_f_array(&f_array)?;
            f_fold = next_f_fold(&f_array, &f_fold)?;
            proof {
                // new f_array handles 2n = i elements
                assert forall|es: Seq<Val>, a: Val| es.len() == i.0 implies #[trigger] eval(f_array@, pv(arr_val(es), a)) == foldl(f@, es, Some(a)) by {
                    let h = (es.len() / 2) as int;
                    let e1 = es.take(h); let e2 = es.skip(h);
                    assert(arr_val(es) == pv(arr_val(e1), arr_val(e2)));
                    assert(e1 + e2 =~= es);
                    lemma_foldl_append(f@, e1, e2, Some(a));
                    assert(eval(fa0, pv(arr_val(e1), a)) == foldl(f@, e1, Some(a)));
                    match eval(fa0, pv(arr_val(e1), a)) {
                        Some(a1) => { assert(eval(fa0, pv(arr_val(e2), a1)) == foldl(f@, e2, Some(a1))); }
                        None => { lemma_foldl_none(f@, e2); }
                    }
                }
                // new f_fold handles < 2i elements
                assert forall|es: Seq<Val>, a: Val| es.len() < 2 * i.0 implies #[trigger] eval(f_fold@, pv(list_val(es, (2 * i.0) as nat), a)) == foldl(f@, es, Some(a)) by {
                    let b = i.0 as int;
                    if es.len() < b {
                        assert(list_val(es, (2 * i.0) as nat) == pv(Val::L(Box::new(Val::Unit)), list_val(es, i.0 as nat)));
                        assert(eval(ff0, pv(list_val(es, i.0 as nat), a)) == foldl(f@, es, Some(a)));
                    } else {
                        let e1 = es.take(b); let e2 = es.skip(b);
                        assert(list_val(es, (2 * i.0) as nat) == pv(Val::R(Box::new(arr_val(e1))), list_val(e2, i.0 as nat)));
                        assert(e1 + e2 =~= es);
                        lemma_foldl_append(f@, e1, e2, Some(a));
                        assert(eval(f_array@, pv(arr_val(e1), a)) == foldl(f@, e1, Some(a)));
                        match eval(f_array@, pv(arr_val(e1), a)) {
                            Some(a1) => { assert(eval(ff0, pv(list_val(e2, i.0 as nat), a1)) == foldl(f@, e2, Some(a1))); }
                            None => { lemma_foldl_none(f@, e2); }
                        }
                    }
                }
            }
            i = i.mul2();
        }

        Ok(f_fold)
    }
}
fn main() {}
