use vstd::prelude::*;
verus! {

pub enum Val { Unit, L(Box<Val>), R(Box<Val>), P(Box<Val>, Box<Val>) }

pub enum Term {
    Iden, Unit,
    InjL(Box<Term>), InjR(Box<Term>),
    Take(Box<Term>), Drop(Box<Term>),
    Comp(Box<Term>, Box<Term>),
    Case(Box<Term>, Box<Term>),
    Pair(Box<Term>, Box<Term>),
    Fail,
    Opaque(int),
}

pub uninterp spec fn opaque_sem(k: int, v: Val) -> Option<Val>;

pub open spec fn pv(a: Val, b: Val) -> Val { Val::P(Box::new(a), Box::new(b)) }

pub open spec fn eval(t: Term, v: Val) -> Option<Val>
    decreases t
{
    match t {
        Term::Iden => Some(v),
        Term::Unit => Some(Val::Unit),
        Term::InjL(s) => match eval(*s, v) { Some(w) => Some(Val::L(Box::new(w))), None => None },
        Term::InjR(s) => match eval(*s, v) { Some(w) => Some(Val::R(Box::new(w))), None => None },
        Term::Take(s) => match v { Val::P(a, b) => eval(*s, *a), _ => None },
        Term::Drop(s) => match v { Val::P(a, b) => eval(*s, *b), _ => None },
        Term::Comp(s, u) => match eval(*s, v) { Some(w) => eval(*u, w), None => None },
        Term::Pair(s, u) => match eval(*s, v) {
            Some(a) => match eval(*u, v) { Some(b) => Some(pv(a, b)), None => None },
            None => None },
        Term::Case(s, u) => match v {
            Val::P(x, c) => match *x {
                Val::L(a) => eval(*s, pv(*a, *c)),
                Val::R(b) => eval(*u, pv(*b, *c)),
                _ => None },
            _ => None },
        Term::Fail => None,
        Term::Opaque(k) => opaque_sem(k, v),
    }
}

// ---------- spec: layouts ----------
pub open spec fn is_pow2(n: nat) -> bool decreases n {
    if n == 0 { false } else if n == 1 { true } else { n % 2 == 0 && is_pow2(n / 2) }
}

// array of exactly n = 2^k elements: perfect halves
pub open spec fn arr_val(es: Seq<Val>) -> Val decreases es.len() {
    if es.len() <= 1 { if es.len() == 1 { es[0] } else { Val::Unit } }
    else { let h = (es.len() / 2) as int; pv(arr_val(es.take(h)), arr_val(es.skip(h))) }
}

pub open spec fn list_val(es: Seq<Val>, bound: nat) -> Val decreases bound {
    if bound <= 2 {
        if es.len() == 0 { Val::L(Box::new(Val::Unit)) } else { Val::R(Box::new(es[0])) }
    } else {
        let b = (bound / 2) as int;
        if es.len() < b { pv(Val::L(Box::new(Val::Unit)), list_val(es, (bound / 2) as nat)) }
        else { pv(Val::R(Box::new(arr_val(es.take(b)))), list_val(es.skip(b), (bound / 2) as nat)) }
    }
}

pub open spec fn foldl(f: Term, es: Seq<Val>, acc: Option<Val>) -> Option<Val> decreases es.len() {
    if acc is None { None }
    else if es.len() == 0 { acc }
    else { foldl(f, es.skip(1), eval(f, pv(es[0], acc->Some_0))) }
}

pub proof fn lemma_foldl_none(f: Term, es: Seq<Val>)
    ensures foldl(f, es, None) is None
{}

pub proof fn lemma_foldl_append(f: Term, xs: Seq<Val>, ys: Seq<Val>, acc: Option<Val>)
    ensures foldl(f, xs + ys, acc) == foldl(f, ys, foldl(f, xs, acc))
    decreases xs.len()
{
    if acc is None {
    } else if xs.len() == 0 {
        assert(xs + ys =~= ys);
    } else {
        assert((xs + ys).skip(1) =~= xs.skip(1) + ys);
        assert((xs + ys)[0] == xs[0]);
        lemma_foldl_append(f, xs.skip(1), ys, eval(f, pv(xs[0], acc->Some_0)));
    }
}


pub open spec fn bx(t: Term) -> Box<Term> { Box::new(t) }
pub open spec fn bit(b: bool) -> Val { if b { Val::R(Box::new(Val::Unit)) } else { Val::L(Box::new(Val::Unit)) } }
pub open spec fn t_bit(b: bool) -> Term { if b { Term::InjR(bx(Term::Unit)) } else { Term::InjL(bx(Term::Unit)) } }
pub open spec fn oh() -> Term { Term::Take(bx(Term::Iden)) }
pub open spec fn ih() -> Term { Term::Drop(bx(Term::Iden)) }

// for_while_0 f := (OH ▵ (IH ▵ false); f) ▵ IH; case (injl OH) (OH ▵ (IH ▵ true); f)
pub open spec fn fw0(f: Term) -> Term {
    let out0 = Term::Comp(bx(Term::Pair(bx(oh()), bx(Term::Pair(bx(ih()), bx(t_bit(false)))))), bx(f));
    let case_in = Term::Pair(bx(out0), bx(ih()));
    let x = Term::InjL(bx(oh()));
    let out1 = Term::Comp(bx(Term::Pair(bx(oh()), bx(Term::Pair(bx(ih()), bx(t_bit(true)))))), bx(f));
    Term::Comp(bx(case_in), bx(Term::Case(bx(x), bx(out1))))
}
// adapt f := OH ▵ (IOOH ▵ (IOIH ▵ IIH)); f
pub open spec fn adapt(f: Term) -> Term {
    let iooh = Term::Drop(bx(Term::Take(bx(Term::Take(bx(Term::Iden))))));
    let ioih = Term::Drop(bx(Term::Take(bx(Term::Drop(bx(Term::Iden))))));
    let iih = Term::Drop(bx(Term::Drop(bx(Term::Iden))));
    Term::Comp(bx(Term::Pair(bx(oh()), bx(Term::Pair(bx(iooh), bx(Term::Pair(bx(ioih), bx(iih))))))), bx(f))
}
pub open spec fn fw(n: nat, t: Term) -> Term decreases n {
    if n == 0 { fw0(t) } else { fw((n - 1) as nat, fw((n - 1) as nat, adapt(t))) }
}

pub open spec fn cnt(n: nat) -> nat decreases n { if n == 0 { 2 } else { cnt((n - 1) as nat) * cnt((n - 1) as nat) } }
pub open spec fn word(n: nat, k: nat) -> Val decreases n {
    if n == 0 { bit(k != 0) } else { let m = cnt((n - 1) as nat); pv(word((n - 1) as nat, k / m), word((n - 1) as nat, k % m)) }
}

pub type Step = spec_fn(Val, Val, nat) -> Option<Val>;

pub open spec fn run(g: Step, c: Val, a: Val, lo: nat, hi: nat) -> Option<Val> decreases hi - lo {
    if lo >= hi { Some(Val::R(Box::new(a))) } else {
        match g(a, c, lo) {
            Some(Val::L(b)) => Some(Val::L(b)),
            Some(Val::R(a1)) => run(g, c, *a1, lo + 1, hi),
            _ => None,
        }
    }
}

pub open spec fn models(t: Term, g: Step, n: nat) -> bool {
    forall|a: Val, c: Val, k: nat| k < cnt(n) ==> #[trigger] eval(t, pv(a, pv(c, word(n, k)))) == g(a, c, k)
}

pub open spec fn is_sum(o: Option<Val>) -> bool { match o { None => true, Some(Val::L(_)) => true, Some(Val::R(_)) => true, _ => false } }
pub open spec fn sum_valued(g: Step) -> bool { forall|a: Val, c: Val, k: nat| is_sum(#[trigger] g(a, c, k)) }

pub proof fn lemma_fw0(t: Term, g: Step)
    requires models(t, g, 0), sum_valued(g)
    ensures forall|a: Val, c: Val| #[trigger] eval(fw0(t), pv(a, c)) == run(g, c, a, 0, 2)
{
    assert forall|a: Val, c: Val| #[trigger] eval(fw0(t), pv(a, c)) == run(g, c, a, 0, 2) by {
        let v = pv(a, c);
        reveal_with_fuel(eval, 5);
        reveal_with_fuel(run, 3);
        reveal_with_fuel(cnt, 1);
        assert(word(0, 0) == bit(false)); assert(word(0, 1) == bit(true));
        let in0 = Term::Pair(bx(oh()), bx(Term::Pair(bx(ih()), bx(t_bit(false)))));
        assert(eval(in0, v) == Some(pv(a, pv(c, bit(false)))));
        assert(eval(t, pv(a, pv(c, word(0, 0)))) == g(a, c, 0));
        let out0 = Term::Comp(bx(in0), bx(t));
        assert(eval(out0, v) == g(a, c, 0));
        match g(a, c, 0) {
            Some(Val::L(b)) => {
                let w = pv(Val::L(b), c);
                assert(eval(Term::Pair(bx(out0), bx(ih())), v) == Some(w));
                assert(eval(Term::InjL(bx(oh())), pv(*b, c)) == Some(Val::L(Box::new(*b))));
                assert(eval(fw0(t), v) == Some(Val::L(b)));
                assert(run(g, c, a, 0, 2) == Some(Val::L(b)));
            }
            Some(Val::R(a1)) => {
                let w = pv(Val::R(a1), c);
                assert(eval(Term::Pair(bx(out0), bx(ih())), v) == Some(w));
                let v1 = pv(*a1, c);
                let in1 = Term::Pair(bx(oh()), bx(Term::Pair(bx(ih()), bx(t_bit(true)))));
                assert(eval(in1, v1) == Some(pv(*a1, pv(c, bit(true)))));
                assert(eval(t, pv(*a1, pv(c, word(0, 1)))) == g(*a1, c, 1));
                let out1 = Term::Comp(bx(in1), bx(t));
                assert(eval(out1, v1) == g(*a1, c, 1));
                assert(eval(fw0(t), v) == g(*a1, c, 1));
                assert(is_sum(g(*a1, c, 1)));
                assert(run(g, c, a, 0, 2) == run(g, c, *a1, 1, 2));
                match g(*a1, c, 1) {
                    Some(Val::L(b2)) => { assert(run(g, c, *a1, 1, 2) == Some(Val::L(b2))); }
                    Some(Val::R(a2)) => { assert(run(g, c, *a2, 2, 2) == Some(Val::R(Box::new(*a2)))); assert(run(g, c, *a1, 1, 2) == Some(Val::R(a2))); }
                    _ => {}
                }
            }
            Some(Val::Unit) => { assert(is_sum(g(a, c, 0))); }
            Some(Val::P(_, _)) => { assert(is_sum(g(a, c, 0))); }
            None => { assert(eval(Term::Pair(bx(out0), bx(ih())), v) is None); }
        }
    }
}

pub proof fn lemma_cnt_pos(n: nat) ensures cnt(n) >= 2 decreases n {
    if n > 0 { lemma_cnt_pos((n - 1) as nat); assert(cnt((n-1) as nat) * cnt((n-1) as nat) >= 2) by (nonlinear_arith) requires cnt((n-1) as nat) >= 2; }
}

// nested loops = single loop
pub open spec fn inner(g: Step, n: nat) -> Step {
    |a: Val, cc: Val, lo: nat| match cc { Val::P(c, hw) => g(a, *c, 0) , _ => None }  // placeholder, refined below
}

// g1(a, (c, word(n,hi)), lo) = g(a, c, hi*M + lo): we avoid decoding words by threading hi explicitly
pub open spec fn run2(g: Step, c: Val, a: Val, hi: nat, m: nat, hi_end: nat) -> Option<Val> decreases hi_end - hi {
    if hi >= hi_end { Some(Val::R(Box::new(a))) } else {
        match run(g, c, a, hi * m, hi * m + m) {
            Some(Val::L(b)) => Some(Val::L(b)),
            Some(Val::R(a1)) => run2(g, c, *a1, hi + 1, m, hi_end),
            _ => None,
        }
    }
}

pub proof fn lemma_run_split(g: Step, c: Val, a: Val, lo: nat, mid: nat, hi: nat)
    requires lo <= mid <= hi
    ensures run(g, c, a, lo, hi) == match run(g, c, a, lo, mid) { Some(Val::L(b)) => Some(Val::L(b)), Some(Val::R(a1)) => run(g, c, *a1, mid, hi), _ => None }
    decreases mid - lo
{
    if lo >= mid {
    } else {
        match g(a, c, lo) {
            Some(Val::R(a1)) => { lemma_run_split(g, c, *a1, lo + 1, mid, hi); }
            _ => {}
        }
    }
}

pub proof fn lemma_run2(g: Step, c: Val, a: Val, hi: nat, m: nat, hi_end: nat)
    requires hi <= hi_end, m >= 1
    ensures run2(g, c, a, hi, m, hi_end) == run(g, c, a, hi * m, hi_end * m)
    decreases hi_end - hi
{
    if hi >= hi_end {
    } else {
        assert(hi * m + m == (hi + 1) * m) by (nonlinear_arith);
        assert((hi + 1) * m <= hi_end * m) by (nonlinear_arith) requires hi + 1 <= hi_end;
        lemma_run_split(g, c, a, hi * m, hi * m + m, hi_end * m);
        match run(g, c, a, hi * m, hi * m + m) {
            Some(Val::R(a1)) => { lemma_run2(g, c, *a1, hi + 1, m, hi_end); }
            _ => {}
        }
    }
}
}
fn main() {}
