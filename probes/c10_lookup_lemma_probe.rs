use vstd::prelude::*;
verus! {

pub enum Pat { Ignore, Id(int), Prod(Box<Pat>, Box<Pat>) }
pub struct Ev { pub node: Pat, pub n: nat }

pub open spec fn events(p: Pat) -> Seq<Ev> decreases p {
    match p {
        Pat::Prod(l, r) => seq![Ev { node: p, n: 0 }] + events(*l) + seq![Ev { node: p, n: 1 }] + events(*r) + seq![Ev { node: p, n: 2 }],
        _ => seq![Ev { node: p, n: 0 }],
    }
}
pub open spec fn occurs(p: Pat, x: int) -> bool decreases p {
    match p { Pat::Ignore => false, Pat::Id(y) => y == x, Pat::Prod(l, r) => occurs(*l, x) || occurs(*r, x) }
}
// path of first pre-order occurrence (relative to p)
pub open spec fn fp(p: Pat, x: int) -> Seq<bool> decreases p {
    match p {
        Pat::Prod(l, r) => if occurs(*l, x) { seq![false] + fp(*l, x) } else { seq![true] + fp(*r, x) },
        _ => Seq::empty(),
    }
}
pub enum Out { Found(Seq<bool>), NotFound(Seq<bool>), Panic }

// one loop iteration of BasePattern::get as a spec transition
pub open spec fn step(e: Ev, x: int, s: Seq<bool>) -> Out {
    match e.node {
        Pat::Id(y) => if y == x { Out::Found(s) } else if s.len() == 0 { Out::Panic } else { Out::NotFound(s.drop_last()) },
        Pat::Ignore => if s.len() == 0 { Out::Panic } else { Out::NotFound(s.drop_last()) },
        Pat::Prod(_, _) => if e.n == 0 { Out::NotFound(s.push(false)) } else if e.n == 1 { Out::NotFound(s.push(true)) }
                           else if s.len() == 0 { Out::Panic } else { Out::NotFound(s.drop_last()) },
    }
}
pub open spec fn sim(evs: Seq<Ev>, x: int, s: Seq<bool>) -> Out decreases evs.len() {
    if evs.len() == 0 { Out::NotFound(s) } else {
        match step(evs[0], x, s) { Out::NotFound(s1) => sim(evs.skip(1), x, s1), o => o }
    }
}

pub proof fn lemma_sim_append(a: Seq<Ev>, b: Seq<Ev>, x: int, s: Seq<bool>)
    ensures sim(a + b, x, s) == match sim(a, x, s) { Out::NotFound(s1) => sim(b, x, s1), o => o }
    decreases a.len()
{
    if a.len() == 0 { assert(a + b =~= b); }
    else {
        assert((a + b)[0] == a[0]);
        assert((a + b).skip(1) =~= a.skip(1) + b);
        match step(a[0], x, s) { Out::NotFound(s1) => lemma_sim_append(a.skip(1), b, x, s1), _ => {} }
    }
}

pub proof fn lemma_sim_tree(p: Pat, x: int, s: Seq<bool>)
    ensures sim(events(p), x, s) ==
        if occurs(p, x) { Out::Found(s + fp(p, x)) }
        else if s.len() == 0 { Out::Panic } else { Out::NotFound(s.drop_last()) }
    decreases p
{
    match p {
        Pat::Prod(l, r) => {
            let e0 = seq![Ev { node: p, n: 0 }]; let e1 = seq![Ev { node: p, n: 1 }]; let e2 = seq![Ev { node: p, n: 2 }];
            let sl = s.push(false); let sr = s.push(true);
            // sim(e0) etc
            reveal_with_fuel(sim, 2);
            assert(e0.skip(1) =~= Seq::<Ev>::empty()); assert(e1.skip(1) =~= Seq::<Ev>::empty()); assert(e2.skip(1) =~= Seq::<Ev>::empty());
            assert(sim(e0, x, s) == Out::NotFound(sl));
            assert(sim(e1, x, s) == Out::NotFound(sr));
            lemma_sim_tree(*l, x, sl);
            lemma_sim_tree(*r, x, sr);
            assert(sl.drop_last() =~= s); assert(sr.drop_last() =~= s);
            let rest3 = events(*r) + e2; let rest2 = e1 + rest3; let rest1 = events(*l) + rest2;
            assert(events(p) =~= e0 + rest1);
            lemma_sim_append(e0, rest1, x, s);
            lemma_sim_append(events(*l), rest2, x, sl);
            lemma_sim_append(e1, rest3, x, s);
            lemma_sim_append(events(*r), e2, x, sr);
            if occurs(*l, x) {
                assert(s + (seq![false] + fp(*l, x)) =~= sl + fp(*l, x));
            } else if occurs(*r, x) {
                assert(s + (seq![true] + fp(*r, x)) =~= sr + fp(*r, x));
            } else {
            }
        }
        _ => {
            reveal_with_fuel(sim, 2);
            assert(events(p).skip(1) =~= Seq::<Ev>::empty());
            assert(s + Seq::<bool>::empty() =~= s);
        }
    }
}
}
fn main() {}
