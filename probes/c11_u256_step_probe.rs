use vstd::prelude::*;
use vstd::arithmetic::power::*;
verus! {

pub open spec fn p256(e: nat) -> nat decreases e { if e == 0 { 1 } else { 256 * p256((e - 1) as nat) } }

// big-endian value of a byte sequence
pub open spec fn be_val(b: Seq<u8>) -> nat decreases b.len() {
    if b.len() == 0 { 0 } else { be_val(b.drop_last()) * 256 + b.last() as nat }
}

pub proof fn lemma_be_push(b: Seq<u8>, x: u8)
    ensures be_val(b.push(x)) == be_val(b) * 256 + x as nat
{
    assert(b.push(x).drop_last() =~= b);
}

// value of suffix b[k..]
pub open spec fn suf(b: Seq<u8>, k: int) -> nat { be_val(b.subrange(k, b.len() as int)) }

pub proof fn lemma_suf_step(b: Seq<u8>, k: int)
    requires 0 <= k < b.len()
    ensures suf(b, k) == b[k] as nat * p256((b.len() - k - 1) as nat) + suf(b, k + 1)
    decreases b.len() - k
{
    let s = b.subrange(k, b.len() as int);
    if k == b.len() - 1 {
        assert(s.drop_last() =~= Seq::<u8>::empty());
        assert(b.subrange(k + 1, b.len() as int) =~= Seq::<u8>::empty());
        assert(s.len() == 1);
        assert(s.last() == b[k]);
        assert(be_val(s) == be_val(s.drop_last()) * 256 + s.last() as nat);
        assert(be_val(Seq::<u8>::empty()) == 0);
        assert(p256(0) == 1);
        assert(suf(b, k + 1) == 0);
    } else {
        // s = [b[k]] ++ t ;  be(s) = be(s.drop_last())*256 + last
        let bl = b.drop_last();
        assert(s.drop_last() =~= bl.subrange(k, bl.len() as int));
        assert(b.subrange(k + 1, b.len() as int).drop_last() =~= bl.subrange(k + 1, bl.len() as int));
        lemma_suf_step(bl, k);
        assert(bl[k] == b[k]);
        assert(s.last() == b.last());
        assert(b.subrange(k + 1, b.len() as int).last() == b.last());
        let e = (b.len() - k - 1) as nat;
        assert(p256(e) == 256 * p256((e - 1) as nat));
        assert(suf(bl, k) == b[k] as nat * p256((e - 1) as nat) + suf(bl, k + 1));
        assert(suf(b, k) == suf(bl, k) * 256 + b.last() as nat);
        assert(suf(b, k + 1) == suf(bl, k + 1) * 256 + b.last() as nat);
        assert(suf(b, k) == b[k] as nat * p256(e) + suf(b, k + 1)) by (nonlinear_arith)
            requires suf(b, k) == suf(bl, k) * 256 + b.last() as nat,
                     suf(b, k + 1) == suf(bl, k + 1) * 256 + b.last() as nat,
                     suf(bl, k) == b[k] as nat * p256((e - 1) as nat) + suf(bl, k + 1),
                     p256(e) == 256 * p256((e - 1) as nat);
    }
}

// one digit step: bytes := bytes*10 + d  (mod 2^256), carry out
fn step(bytes: &mut [u8; 32], d: u32) -> (carry: u32)
    requires d < 10
    ensures carry < 10,
            be_val(final(bytes)@) + carry as nat * p256(32) == 10 * be_val(old(bytes)@) + d as nat
{
    let mut carry = d;
    let ghost b0 = bytes@;
    let mut k: usize = bytes.len();
    proof { assert(bytes@.subrange(32, 32) =~= Seq::<u8>::empty()); assert(be_val(Seq::<u8>::empty()) == 0); assert(p256(0) == 1); }
    while k > 0
        invariant
            0 <= k <= 32, carry < 10, bytes@.len() == 32, b0.len() == 32,
            forall|j: int| 0 <= j < k ==> bytes@[j] == b0[j],
            suf(bytes@, k as int) + carry as nat * p256((32 - k) as nat) == 10 * suf(b0, k as int) + d as nat,
        decreases k
    {
        k -= 1;
        let ghost before = bytes@;
        let ghost c0 = carry;
        let value = u32::from(bytes[k]) * 10 + carry;
        bytes[k] = (value % 256) as u8;
        carry = value / 256;
        proof {
            lemma_suf_step(bytes@, k as int);
            lemma_suf_step(b0, k as int);
            assert(bytes@.subrange(k + 1, 32) =~= before.subrange(k + 1, 32));
            let e = (32 - k - 1) as nat;
            assert(p256((32 - k) as nat) == 256 * p256(e));
            let sb = suf(before, k + 1); let s0 = suf(b0, k + 1); let pe = p256(e);
            let x = b0[k as int] as nat; let nb = bytes@[k as int] as nat;
            assert(nb + carry as nat * 256 == x * 10 + c0 as nat);
            assert(nb * pe + sb + carry as nat * (256 * pe) == 10 * (x * pe + s0) + d as nat) by (nonlinear_arith)
                requires nb + carry as nat * 256 == x * 10 + c0 as nat,
                         sb + c0 as nat * pe == 10 * s0 + d as nat;
        }
    }
    proof {
        assert(bytes@.subrange(0, 32) =~= bytes@);
        assert(b0.subrange(0, 32) =~= b0);
    }
    carry
}
}
fn main() {}
