use simfony::{TemplateProgram, Arguments, WitnessValues};
fn try_prog(label: &str, src: &str) {
    let r = std::panic::catch_unwind(|| {
        match TemplateProgram::new(src) {
            Err(e) => format!("REJECT: {}", e.lines().last().unwrap_or("")),
            Ok(t) => match t.instantiate(Arguments::default(), false) {
                Err(e) => format!("ACCEPT then instantiate ERR: {}", e.lines().last().unwrap_or("")),
                Ok(c) => match c.satisfy(WitnessValues::default()) {
                    Ok(_) => "ACCEPT, compiles, satisfies".to_string(),
                    Err(e) => format!("ACCEPT, compiles, satisfy ERR: {e}"),
                }
            }
        }
    });
    match r { Ok(s) => println!("{label}: {s}"), Err(_) => println!("{label}: PANIC") }
}
fn main() {
    std::panic::set_hook(Box::new(|_| {}));
    try_prog("F1 u256 = _", "fn main() { let x: u256 = _; assert!(jet::eq_256(x, 0)); }");
    try_prog("u8 = _", "fn main() { let x: u8 = _; }");
    try_prog("F2 u4 = 0x_", "fn main() { let x: u4 = 0x_; }");
    try_prog("F2 u1 = 0x_", "fn main() { let x: u1 = 0x_; }");
    try_prog("F2 [u8;0] = 0x_", "fn main() { let x: [u8; 0] = 0x_; }");
    try_prog("u8 = 0x_", "fn main() { let x: u8 = 0x_; }");
    try_prog("u8 = 0b_", "fn main() { let x: u8 = 0b_; }");
    try_prog("F3 tuple arity", "fn main() { let (a, b): (u8, u8, u8) = (1, 2, 3); }");
    try_prog("F3 tuple arity used", "fn main() { let (a, b): (u8, u8, u8) = (1, 2, 3); assert!(jet::eq_8(b, 2)); }");
    try_prog("dup params", "fn f(a: u8, a: u16) -> u16 { a } fn main() { let x: u16 = f(1, 2); assert!(jet::eq_16(x, 2)); }");
    try_prog("true_x", "fn main() { let true_x: u8 = 1; let y: u8 = true_x; }");
    try_prog("Fee alias", "type Fee = u8; fn main() { let x: Fee = 1; }");
    try_prog("into_miles", "fn into_miles(a: u8) -> u8 { a } fn main() { let x: u8 = into_miles(1); }");
    try_prog("unused witness", "fn main() { let x: u32 = witness::A; }");
}
