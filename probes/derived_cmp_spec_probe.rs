use vstd::prelude::*;
use vstd::std_specs::cmp::*;
use core::cmp::Ordering;
verus! {
#[derive(Copy, Clone, Eq, PartialEq)]
pub struct W(pub usize);

impl PartialEqSpecImpl for W {
    open spec fn obeys_eq_spec() -> bool { true }
    open spec fn eq_spec(&self, other: &W) -> bool { self.0 == other.0 }
}
impl PartialOrdSpecImpl for W {
    open spec fn obeys_partial_cmp_spec() -> bool { true }
    open spec fn partial_cmp_spec(&self, other: &W) -> Option<Ordering> {
        if self.0 < other.0 { Some(Ordering::Less) } else if self.0 == other.0 { Some(Ordering::Equal) } else { Some(Ordering::Greater) }
    }
}
impl PartialOrd for W {
    #[verifier::external_body]
    fn partial_cmp(&self, other: &W) -> (r: Option<Ordering>)
    { self.0.partial_cmp(&other.0) }
}

fn t(a: W, b: W) {
    if a < b { assert(a.0 < b.0); }
    if a <= b { assert(a.0 <= b.0); }
    if a == b { assert(a.0 == b.0); }
}
}
fn main() {}
