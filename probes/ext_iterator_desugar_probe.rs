use vstd::prelude::*;
verus! {

pub struct Item<T> { pub node: T, pub nchildren: usize }

#[verifier::external_body]
#[verifier::reject_recursive_types(T)]
pub struct PostOrderIter<T> { x: core::marker::PhantomData<T> }

impl<T> PostOrderIter<T> {
    pub uninterp spec fn remaining(&self) -> Seq<Item<T>>;

    #[verifier::external_body]
    pub fn next(&mut self) -> (r: Option<Item<T>>)
        ensures
            old(self).remaining().len() == 0 ==> r is None && final(self).remaining() == old(self).remaining(),
            old(self).remaining().len() > 0 ==> r == Some(old(self).remaining()[0]) && final(self).remaining() == old(self).remaining().skip(1),
    { unimplemented!() }
}

fn fold<A: Clone, F: Fn(A, A) -> A>(it0: PostOrderIter<A>, f: F) -> Option<A>
    requires forall|a: A, b: A| f.requires((a, b))
{
        let mut output: Vec<A> = vec![];
        let mut it = it0;
        loop
          invariant forall|a: A, b: A| f.requires((a, b))
          decreases it.remaining().len()
        {
          match it.next() {
            None => break,
            Some(item) => {
            match item.nchildren {
                2 => {
                    let r = output.pop().unwrap();
                    let l = output.pop().unwrap();
                    output.push(f(l, r));
                }
                n => {
                    output.push(item.node.clone());
                }
            }
            }
          }
        }
        output.pop()
}
}
fn main() {}
