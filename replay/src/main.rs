//! Replay / oracle driver: a thin line-oriented RPC over the REAL functions of /repo.
//! stdin:  `<op>\t<arg>\t<arg>...`  (string arguments hex-encoded UTF-8)
//! stdout: one line per request (`ok ...`, `err ...`, `panic ...`).
//! All specifications live on the Python side (vt/replay.py); this binary contains no oracle.
use std::io::{self, BufRead, Write};
use std::panic;

fn unhex(s: &str) -> String {
    let bytes: Vec<u8> = (0..s.len() / 2)
        .map(|i| u8::from_str_radix(&s[2 * i..2 * i + 2], 16).unwrap())
        .collect();
    String::from_utf8(bytes).unwrap()
}

fn hex(b: &[u8]) -> String {
    b.iter().map(|x| format!("{:02x}", x)).collect()
}

mod ops;

thread_local! {
    static LAST_PANIC_LOCATION: std::cell::RefCell<String> = std::cell::RefCell::new(String::new());
}

fn main() {
    panic::set_hook(Box::new(|info| {
        let loc = info.location().map(|l| format!("{}:{}", l.file(), l.line())).unwrap_or_default();
        LAST_PANIC_LOCATION.with(|c| *c.borrow_mut() = loc);
    }));
    let stdin = io::stdin();
    let stdout = io::stdout();
    for line in stdin.lock().lines() {
        let line = line.unwrap();
        let parts: Vec<&str> = line.split('\t').collect();
        let res = panic::catch_unwind(|| ops::dispatch(&parts));
        let out = match res {
            Ok(s) => s,
            Err(e) => {
                let msg = if let Some(s) = e.downcast_ref::<String>() {
                    s.clone()
                } else if let Some(s) = e.downcast_ref::<&str>() {
                    s.to_string()
                } else {
                    "?".to_string()
                };
                let loc = LAST_PANIC_LOCATION.with(|c| c.borrow().clone());
                format!("panic {} [at {}]", msg.replace('\n', " "), loc)
            }
        };
        let mut o = stdout.lock();
        writeln!(o, "{}", out).unwrap();
        o.flush().unwrap();
    }
}
