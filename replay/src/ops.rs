use super::{hex, unhex};
use simfony::num::U256;

pub fn dispatch(parts: &[&str]) -> String {
    match parts[0] {
        "u256_from_str" => {
            let s = unhex(parts[1]);
            match s.parse::<U256>() {
                Ok(v) => format!("ok {}", hex(v.as_ref())),
                Err(e) => format!("err {:?}", e),
            }
        }
        "u256_display" => {
            // arg: 64 hex digits
            let b: Vec<u8> = (0..32).map(|i| u8::from_str_radix(&parts[1][2 * i..2 * i + 2], 16).unwrap()).collect();
            let mut a = [0u8; 32];
            a.copy_from_slice(&b);
            format!("ok {}", U256::from_byte_array(a))
        }
        other => format!("err unknown-op {}", other),
    }
}
