use super::{hex, unhex};
use simfony::num::U256;
use simfony::parse::ParseFromStr;
use simfony::{Arguments, CompiledProgram, WitnessValues};

/// run a compiled+satisfied program; "ok" or "exec-fail ..."
fn exec(compiled: &CompiledProgram, witness: WitnessValues) -> String {
    let satisfied = match compiled.satisfy(witness) {
        Ok(x) => x,
        Err(e) => return format!("satisfy-err {}", e.replace('\n', " ")),
    };
    let env = simfony::dummy_env::dummy();
    // The program is executed exactly as `satisfy` returned it (unpruned). Pruning is a transformation of the
    // simplicity-lang dependency, not of this crate (see DESIGN.md 11.3, "dependency observation D1").
    let program = satisfied.redeem();
    let mut mac = match simfony::simplicity::BitMachine::for_program(program) {
        Ok(m) => m,
        Err(e) => return format!("exec-fail limits {}", e.to_string().replace('\n', " ")),
    };
    match mac.exec(program, &env) {
        Ok(_) => "ok".to_string(),
        Err(e) => format!("exec-fail {}", e.to_string().replace('\n', " ")),
    }
}

/// plain build vs debug build of the same program, and the markers embedded in the debug build
fn debug_info(src: &str, wit_text: &str) -> String {
    use simfony::simplicity::dag::{DagLike, NoSharing};
    use simfony::simplicity::node::Inner;
    let witness = if wit_text.is_empty() { WitnessValues::default() } else {
        match WitnessValues::parse_from_str(wit_text) { Ok(x) => x, Err(e) => return format!("witness-err {}", e.to_string().replace('\n', " ")) }
    };
    let plain = match CompiledProgram::new(src, Arguments::default(), false) { Ok(x) => x, Err(e) => return format!("compile-err {}", e.replace('\n', " ")) };
    let debug = match CompiledProgram::new(src, Arguments::default(), true) { Ok(x) => x, Err(e) => return format!("compile-err-debug {}", e.replace('\n', " ")) };
    let r_plain = exec(&plain, witness.shallow_clone());
    let r_debug = exec(&debug, witness);
    let mut markers: Vec<String> = Vec::new();
    let mut cmrs: Vec<String> = Vec::new();
    let commit = debug.commit();
    for item in commit.as_ref().post_order_iter::<NoSharing>() {
        if let Inner::AssertL(_, cmr) = item.node.inner() {
            if let Some(call) = debug.debug_symbols().get(cmr) {
                let kind = format!("{:?}", call.name());
                let kind = kind.split('(').next().unwrap_or("").to_string();
                markers.push(format!("{}|{}", call.text(), kind));
                cmrs.push(format!("{}", cmr));
            }
        }
    }
    let plain_markers = plain.commit().as_ref().post_order_iter::<NoSharing>()
        .filter(|item| matches!(item.node.inner(), Inner::AssertL(_, cmr) if plain.debug_symbols().get(cmr).is_some())).count();
    format!("ok plain={} debug={} plain_markers={} markers={} cmrs={}", r_plain.split(' ').next().unwrap(), r_debug.split(' ').next().unwrap(),
            plain_markers, super::hex(markers.join("\x1e").as_bytes()), cmrs.join(","))
}

/// compile `src` with the given argument / witness modules (module text, may be empty), run it on the Bit Machine
fn run_program(src: &str, args_text: &str, wit_text: &str, debug: bool) -> String {
    let arguments = if args_text.is_empty() {
        Arguments::default()
    } else {
        match Arguments::parse_from_str(args_text) {
            Ok(x) => x,
            Err(e) => return format!("args-err {}", e.to_string().replace('\n', " ")),
        }
    };
    let witness = if wit_text.is_empty() {
        WitnessValues::default()
    } else {
        match WitnessValues::parse_from_str(wit_text) {
            Ok(x) => x,
            Err(e) => return format!("witness-err {}", e.to_string().replace('\n', " ")),
        }
    };
    let compiled = match CompiledProgram::new(src, arguments, debug) {
        Ok(x) => x,
        Err(e) => return format!("compile-err {}", e.replace('\n', " ")),
    };
    let satisfied = match compiled.satisfy(witness) {
        Ok(x) => x,
        Err(e) => return format!("satisfy-err {}", e.replace('\n', " ")),
    };
    let env = simfony::dummy_env::dummy();
    // The program is executed exactly as `satisfy` returned it (unpruned). Pruning is a transformation of the
    // simplicity-lang dependency, not of this crate (see DESIGN.md 11.3, "dependency observation D1").
    let program = satisfied.redeem();
    let mut mac = match simfony::simplicity::BitMachine::for_program(program) {
        Ok(m) => m,
        Err(e) => return format!("exec-fail limits {}", e.to_string().replace('\n', " ")),
    };
    match mac.exec(program, &env) {
        Ok(_) => "ok".to_string(),
        Err(e) => format!("exec-fail {}", e.to_string().replace('\n', " ")),
    }
}

pub fn dispatch(parts: &[&str]) -> String {
    match parts[0] {
        "u256_from_str" => {
            let s = unhex(parts[1]);
            match s.parse::<U256>() {
                Ok(v) => format!("ok {}", hex(v.as_ref())),
                Err(e) => format!("err {:?}", e),
            }
        }
        "u256_display" => {
            // arg: 64 hex digits
            let b: Vec<u8> = (0..32).map(|i| u8::from_str_radix(&parts[1][2 * i..2 * i + 2], 16).unwrap()).collect();
            let mut a = [0u8; 32];
            a.copy_from_slice(&b);
            format!("ok {}", U256::from_byte_array(a))
        }
        "parse_hex" => {
            // parse_hex <digits> <type text>
            let digits = simfony::str::Hexadecimal::from_str_unchecked(&unhex(parts[1]));
            let ty = match simfony::ResolvedType::parse_from_str(&unhex(parts[2])) {
                Ok(t) => t,
                Err(e) => return format!("type-err {}", e.to_string().replace('\n', " ")),
            };
            match simfony::Value::parse_hexadecimal(&digits, &ty) {
                Ok(v) => format!("ok {}", v),
                Err(_) => "err".to_string(),
            }
        }
        "parse_dec" => {
            let digits = simfony::str::Decimal::from_str_unchecked(&unhex(parts[1]));
            let ty = match unhex(parts[2]).as_str() {
                "u1" => simfony::types::UIntType::U1, "u2" => simfony::types::UIntType::U2, "u4" => simfony::types::UIntType::U4,
                "u8" => simfony::types::UIntType::U8, "u16" => simfony::types::UIntType::U16, "u32" => simfony::types::UIntType::U32,
                "u64" => simfony::types::UIntType::U64, "u128" => simfony::types::UIntType::U128, _ => simfony::types::UIntType::U256,
            };
            match simfony::value::UIntValue::parse_decimal(&digits, ty) {
                Ok(v) => format!("ok {}", v),
                Err(_) => "err".to_string(),
            }
        }
        "parse_bin" => {
            let digits = simfony::str::Binary::from_str_unchecked(&unhex(parts[1]));
            let ty = match unhex(parts[2]).as_str() {
                "u1" => simfony::types::UIntType::U1, "u2" => simfony::types::UIntType::U2, "u4" => simfony::types::UIntType::U4,
                "u8" => simfony::types::UIntType::U8, "u16" => simfony::types::UIntType::U16, "u32" => simfony::types::UIntType::U32,
                "u64" => simfony::types::UIntType::U64, "u128" => simfony::types::UIntType::U128, _ => simfony::types::UIntType::U256,
            };
            match simfony::value::UIntValue::parse_binary(&digits, ty) {
                Ok(v) => format!("ok {}", v),
                Err(_) => "err".to_string(),
            }
        }
        "btree_shape" => {
            // shape of BTreeSlice over n leaves 0..n-1 folded with a parenthesising closure
            let n: usize = parts[1].parse().unwrap();
            let v: Vec<String> = (0..n).map(|i| format!("{},", i)).collect();
            let out = simfony::array::BTreeSlice::from_slice(&v).fold(|a, b| format!("({}{})", a, b));
            format!("ok {}", out.unwrap_or_default())
        }
        "partition_shape" => {
            let n: usize = parts[1].parse().unwrap();
            let bound: usize = parts[2].parse().unwrap();
            let v: Vec<String> = (0..n).map(|i| format!("{},", i)).collect();
            let b = match simfony::num::NonZeroPow2Usize::new(bound) { Some(b) => b, None => return "err bound".to_string() };
            let p = simfony::array::Partition::from_slice(&v, b);
            let complete = p.is_complete();
            let out = p.fold(|block: &[String], size: usize| format!("[{}:{}]", block.join(""), size), |a, b| format!("({}{})", a, b));
            format!("ok {} complete={}", out, complete)
        }
        "struct_type" => {
            let ty = match simfony::ResolvedType::parse_from_str(&unhex(parts[1])) {
                Ok(t) => t,
                Err(e) => return format!("type-err {}", e.to_string().replace('\n', " ")),
            };
            let st = simfony::types::StructuralType::from(&ty);
            format!("ok {}", st)
        }
        "struct_value" => {
            // struct_value <value text> <type text>: structural form: type check, compact bits, reconstruct round trip, print-parse round trip
            let ty = match simfony::ResolvedType::parse_from_str(&unhex(parts[2])) {
                Ok(t) => t,
                Err(e) => return format!("type-err {}", e.to_string().replace('\n', " ")),
            };
            let v = match simfony::Value::parse_from_str(&unhex(parts[1]), &ty) {
                Ok(v) => v,
                Err(e) => return format!("value-err {}", e.to_string().replace('\n', " ")),
            };
            let sv = simfony::value::StructuralValue::from(&v);
            let st = simfony::types::StructuralType::from(&ty);
            let well_typed = sv.is_of_type(&st);
            let bits: String = sv.as_ref().iter_compact().map(|b| if b { '1' } else { '0' }).collect();
            let rec = simfony::Value::reconstruct(&sv, &ty);
            let round = rec.as_ref() == Some(&v);
            let printed = v.to_string();
            let reparsed = simfony::Value::parse_from_str(&printed, &ty).ok();
            let pp = reparsed.as_ref() == Some(&v);
            format!("ok typed={} bits={} reconstruct={} printparse={} printed={}", well_typed, bits, round, pp, printed)
        }
        "params" => {
            // parameters() of a template: sorted NAME:TYPE list
            match simfony::TemplateProgram::new(unhex(parts[1])) {
                Ok(t) => {
                    let mut v: Vec<String> = t.parameters().iter().map(|(n, ty)| format!("{}:{}", n, ty)).collect();
                    v.sort();
                    format!("ok {}", v.join(";"))
                }
                Err(e) => format!("compile-err {}", e.replace('\n', " ")),
            }
        }
        "run_env" => {
            // like run, but satisfy_with_env(Some(env)) (pruning path)
            let src = unhex(parts[1]);
            let arguments = if parts[2].is_empty() { Arguments::default() } else {
                match Arguments::parse_from_str(&unhex(parts[2])) { Ok(x) => x, Err(e) => return format!("args-err {}", e.to_string().replace('\n', " ")) } };
            let witness = if parts[3].is_empty() { WitnessValues::default() } else {
                match WitnessValues::parse_from_str(&unhex(parts[3])) { Ok(x) => x, Err(e) => return format!("witness-err {}", e.to_string().replace('\n', " ")) } };
            let compiled = match CompiledProgram::new(src, arguments, false) { Ok(x) => x, Err(e) => return format!("compile-err {}", e.replace('\n', " ")) };
            let env = simfony::dummy_env::dummy();
            let satisfied = match compiled.satisfy_with_env(witness, Some(&env)) { Ok(x) => x, Err(e) => return format!("satisfy-err {}", e.replace('\n', " ")) };
            let mut mac = match simfony::simplicity::BitMachine::for_program(satisfied.redeem()) {
                Ok(m) => m,
                Err(e) => return format!("exec-fail limits {}", e.to_string().replace('\n', " ")),
            };
            match mac.exec(satisfied.redeem(), &env) {
                Ok(_) => "ok".to_string(),
                Err(e) => format!("exec-fail {}", e.to_string().replace('\n', " ")),
            }
        }
        "parse_type" => {
            match simfony::ResolvedType::parse_from_str(&unhex(parts[1])) { Ok(t) => format!("ok {}", t), Err(e) => format!("err {}", super::hex(e.to_string().as_bytes())) }
        }
        "parse_witness" => {
            match WitnessValues::parse_from_str(&unhex(parts[1])) { Ok(w) => format!("ok {}", super::hex(w.to_string().as_bytes())), Err(e) => format!("err {}", super::hex(e.to_string().as_bytes())) }
        }
        "parse_args" => {
            match Arguments::parse_from_str(&unhex(parts[1])) { Ok(w) => format!("ok {}", super::hex(w.to_string().as_bytes())), Err(e) => format!("err {}", super::hex(e.to_string().as_bytes())) }
        }
        "json_witness" => {
            // JSON witness file -> WitnessValues -> JSON again (hex of the re-serialised text) | err
            match serde_json::from_str::<WitnessValues>(&unhex(parts[1])) {
                Ok(w) => match serde_json::to_string(&w) { Ok(t) => format!("ok {}", super::hex(t.as_bytes())), Err(e) => format!("ser-err {}", e) },
                Err(e) => format!("err {}", super::hex(e.to_string().as_bytes())),
            }
        }
        "json_args" => {
            match serde_json::from_str::<Arguments>(&unhex(parts[1])) {
                Ok(w) => match serde_json::to_string(&w) { Ok(t) => format!("ok {}", super::hex(t.as_bytes())), Err(e) => format!("ser-err {}", e) },
                Err(e) => format!("err {}", super::hex(e.to_string().as_bytes())),
            }
        }
        "render_err" => {
            // rendered compile error of a source text (hex), or "ok" when it compiles
            match simfony::TemplateProgram::new(unhex(parts[1])) {
                Ok(t) => match t.instantiate(Arguments::default(), false) {
                    Ok(_) => "ok".to_string(),
                    Err(e) => format!("err {}", super::hex(e.as_bytes())),
                },
                Err(e) => format!("err {}", super::hex(e.as_bytes())),
            }
        }
        "debug_info" => debug_info(&unhex(parts[1]), &unhex(parts[2])),
        "run" => {
            // run <src> <args module> <witness module> <debug 0|1>
            run_program(&unhex(parts[1]), &unhex(parts[2]), &unhex(parts[3]), parts.get(4) == Some(&"1"))
        }
        other => format!("err unknown-op {}", other),
    }
}
