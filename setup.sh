#!/bin/bash
# Build what the checks need from files on disk only (offline). The Verus checks need nothing built;
# the replay driver is (re)built on demand against the current /repo tree.
set -e
cd "$(dirname "$0")"
mkdir -p out evidence
python3 -c "import vt.cli" 
verus --version >/dev/null
echo setup ok
