#!/bin/bash
# Build what the checks need from files on disk only (offline): the replay driver (linked against the current /repo
# tree; later runs rebuild it incrementally when /repo changes). The Verus checks themselves need nothing built.
set -e
cd "$(dirname "$0")"
mkdir -p out evidence
python3 -c "import vt.cli"
verus --version >/dev/null
( cd replay && CARGO_NET_OFFLINE=true CARGO_TARGET_DIR=/verif/out/replay-target RUSTFLAGS="--cfg simfony_verif" cargo build --release --offline 2>&1 | tail -2 )
echo setup ok
