#!/bin/bash
# Build what the checks need from files on disk only (offline): the replay driver (linked against the current /repo
# tree; later runs rebuild it incrementally when /repo changes). The Verus checks themselves need nothing built.
set -e
cd "$(dirname "$0")"
mkdir -p out evidence
python3 -c "import vt.cli"
verus --version >/dev/null
( cd replay && CARGO_NET_OFFLINE=true CARGO_TARGET_DIR=/verif/out/replay-target RUSTFLAGS="--cfg simfony_verif" cargo build --release --offline 2>&1 | tail -2 )
# warm the Kani build of the dependency tree (the harness of C06 / C11 runs in the quick tier); failure here is not fatal:
# the check builds what is missing itself
( cd kani && CARGO_NET_OFFLINE=true CARGO_TARGET_DIR=/verif/out/kani-target timeout 900 cargo kani --only-codegen >/dev/null 2>&1 || true )
echo setup ok
