// ---- speclib/arith.rs : powers of two (pure mathematics, proved, no code) ----
pub open spec fn pow2(e: nat) -> nat decreases e { if e == 0 { 1 } else { 2 * pow2((e - 1) as nat) } }

pub open spec fn is_pow2(n: nat) -> bool decreases n {
    if n == 0 { false } else if n == 1 { true } else { n % 2 == 0 && is_pow2(n / 2) }
}

/// floor(log2 n) for n >= 1
pub open spec fn log2f(n: nat) -> nat decreases n { if n <= 1 { 0 } else { 1 + log2f(n / 2) } }

/// least power of two >= n  (npo2(0) = npo2(1) = 1)
pub open spec fn npo2(n: nat) -> nat decreases n { if n <= 1 { 1 } else { 2 * npo2((n + 1) / 2) } }

pub proof fn lemma_pow2_pos(e: nat) ensures pow2(e) >= 1 decreases e { if e > 0 { lemma_pow2_pos((e - 1) as nat); } }

pub proof fn lemma_pow2_is_pow2(e: nat) ensures is_pow2(pow2(e)) decreases e {
    if e > 0 { lemma_pow2_is_pow2((e - 1) as nat); lemma_pow2_pos((e - 1) as nat); }
}

pub proof fn lemma_pow2_log2f(n: nat) requires is_pow2(n) ensures pow2(log2f(n)) == n decreases n {
    if n > 1 { lemma_pow2_log2f(n / 2); }
}

pub proof fn lemma_log2f_pow2(e: nat) ensures log2f(pow2(e)) == e decreases e {
    if e > 0 { lemma_log2f_pow2((e - 1) as nat); lemma_pow2_pos((e - 1) as nat); }
}

pub proof fn lemma_pow2_add(a: nat, b: nat) ensures pow2(a + b) == pow2(a) * pow2(b) decreases a {
    if a > 0 {
        let a1 = (a - 1) as nat;
        lemma_pow2_add(a1, b);
        assert((a + b - 1) as nat == a1 + b);
        assert(pow2(a + b) == 2 * pow2(a1 + b));
        assert(pow2(a) == 2 * pow2(a1));
        let x = pow2(a1); let y = pow2(b);
        assert(2 * (x * y) == (2 * x) * y) by (nonlinear_arith);
    } else {
        assert(0 + b == b);
        assert(pow2(0) == 1);
        assert(1 * pow2(b) == pow2(b));
    }
}

pub proof fn lemma_pow2_mono(a: nat, b: nat) requires a <= b ensures pow2(a) <= pow2(b) decreases b {
    if a < b { lemma_pow2_mono(a, (b - 1) as nat); }
}

pub proof fn lemma_pow2_strict(a: nat, b: nat) requires a < b ensures pow2(a) < pow2(b) decreases b {
    lemma_pow2_pos(a);
    if a + 1 < b { lemma_pow2_strict(a, (b - 1) as nat); }
}

/// two powers of two, one strictly below the other: the smaller one at most half
pub proof fn lemma_is_pow2_lt(i: nat, b: nat)
    requires is_pow2(i), is_pow2(b), i < b
    ensures 2 * i <= b
    decreases b
{
    reveal_with_fuel(is_pow2, 2);
    if i == 1 { } else { lemma_is_pow2_lt(i / 2, b / 2); }
}

pub proof fn lemma_is_pow2_double(n: nat) requires is_pow2(n) ensures is_pow2(2 * n) {
    reveal_with_fuel(is_pow2, 2);
    assert((2 * n) / 2 == n);
}

pub proof fn lemma_is_pow2_half(n: nat) requires is_pow2(n), n >= 2 ensures is_pow2(n / 2), n % 2 == 0 { }

pub proof fn lemma_npo2(n: nat)
    ensures is_pow2(npo2(n)), n <= npo2(n), n >= 1 ==> npo2(n) < 2 * n
    decreases n
{
    if n > 1 {
        lemma_npo2((n + 1) / 2);
        lemma_is_pow2_double(npo2((n + 1) / 2));
    }
}

pub proof fn lemma_npo2_pow2(n: nat) requires is_pow2(n) ensures npo2(n) == n decreases n {
    if n > 1 { lemma_npo2_pow2(n / 2); assert((n + 1) / 2 == n / 2); }
}

/// characterisation: p is the least power of two >= n
pub proof fn lemma_npo2_least(n: nat, p: nat)
    requires is_pow2(p), n <= p
    ensures npo2(n) <= p
    decreases n
{
    if n > 1 {
        assert(p >= 2);
        lemma_npo2_least((n + 1) / 2, p / 2);
    }
}
