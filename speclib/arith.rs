// ---- speclib/arith.rs : powers of two (pure mathematics, proved, no code) ----
pub open spec fn pow2(e: nat) -> nat decreases e { if e == 0 { 1 } else { 2 * pow2((e - 1) as nat) } }

pub open spec fn is_pow2(n: nat) -> bool decreases n {
    if n == 0 { false } else if n == 1 { true } else { n % 2 == 0 && is_pow2(n / 2) }
}

/// floor(log2 n) for n >= 1
pub open spec fn log2f(n: nat) -> nat decreases n { if n <= 1 { 0 } else { 1 + log2f(n / 2) } }

/// least power of two >= n  (npo2(0) = npo2(1) = 1)
pub open spec fn npo2(n: nat) -> nat decreases n { if n <= 1 { 1 } else { 2 * npo2((n + 1) / 2) } }

pub proof fn lemma_pow2_pos(e: nat) ensures pow2(e) >= 1 decreases e { if e > 0 { lemma_pow2_pos((e - 1) as nat); } }

pub proof fn lemma_pow2_is_pow2(e: nat) ensures is_pow2(pow2(e)) decreases e {
    if e > 0 { lemma_pow2_is_pow2((e - 1) as nat); lemma_pow2_pos((e - 1) as nat); }
}

pub proof fn lemma_pow2_log2f(n: nat) requires is_pow2(n) ensures pow2(log2f(n)) == n decreases n {
    if n > 1 { lemma_pow2_log2f(n / 2); }
}

pub proof fn lemma_log2f_pow2(e: nat) ensures log2f(pow2(e)) == e decreases e {
    if e > 0 { lemma_log2f_pow2((e - 1) as nat); lemma_pow2_pos((e - 1) as nat); }
}

pub proof fn lemma_pow2_add(a: nat, b: nat) ensures pow2(a + b) == pow2(a) * pow2(b) decreases a {
    if a > 0 {
        let a1 = (a - 1) as nat;
        lemma_pow2_add(a1, b);
        assert((a + b - 1) as nat == a1 + b);
        assert(pow2(a + b) == 2 * pow2(a1 + b));
        assert(pow2(a) == 2 * pow2(a1));
        let x = pow2(a1); let y = pow2(b);
        assert(2 * (x * y) == (2 * x) * y) by (nonlinear_arith);
    } else {
        assert(0 + b == b);
        assert(pow2(0) == 1);
        assert(1 * pow2(b) == pow2(b));
    }
}

pub proof fn lemma_pow2_mono(a: nat, b: nat) requires a <= b ensures pow2(a) <= pow2(b) decreases b {
    if a < b { lemma_pow2_mono(a, (b - 1) as nat); }
}

pub proof fn lemma_pow2_strict(a: nat, b: nat) requires a < b ensures pow2(a) < pow2(b) decreases b {
    lemma_pow2_pos(a);
    if a + 1 < b { lemma_pow2_strict(a, (b - 1) as nat); }
}

/// two powers of two, one strictly below the other: the smaller one at most half
pub proof fn lemma_is_pow2_lt(i: nat, b: nat)
    requires is_pow2(i), is_pow2(b), i < b
    ensures 2 * i <= b
    decreases b
{
    reveal_with_fuel(is_pow2, 2);
    if i == 1 { } else { lemma_is_pow2_lt(i / 2, b / 2); }
}

pub proof fn lemma_is_pow2_double(n: nat) requires is_pow2(n) ensures is_pow2(2 * n) {
    reveal_with_fuel(is_pow2, 2);
    assert((2 * n) / 2 == n);
}

pub proof fn lemma_is_pow2_half(n: nat) requires is_pow2(n), n >= 2 ensures is_pow2(n / 2), n % 2 == 0 { }

pub proof fn lemma_npo2(n: nat)
    ensures is_pow2(npo2(n)), n <= npo2(n), n >= 1 ==> npo2(n) < 2 * n
    decreases n
{
    if n > 1 {
        lemma_npo2((n + 1) / 2);
        lemma_is_pow2_double(npo2((n + 1) / 2));
    }
}

pub proof fn lemma_npo2_pow2(n: nat) requires is_pow2(n) ensures npo2(n) == n decreases n {
    if n > 1 { lemma_npo2_pow2(n / 2); assert((n + 1) / 2 == n / 2); }
}

/// characterisation: p is the least power of two >= n
pub proof fn lemma_npo2_least(n: nat, p: nat)
    requires is_pow2(p), n <= p
    ensures npo2(n) <= p
    decreases n
{
    if n > 1 {
        assert(p >= 2);
        lemma_npo2_least((n + 1) / 2, p / 2);
    }
}

// ----------------------------------------------------------------------
// Shift / mask forms of the same arithmetic (proved by the bit-vector back end).  They are brought into scope with
// `broadcast use group_bitops` in the integer helper functions so that a rewrite of `/ 2` as `>> 1`, `* 2` as `<< 1`,
// `% 2` as `& 1` ... keeps verifying: the contracts talk about values, not about the operator used.
// ----------------------------------------------------------------------
pub broadcast proof fn lemma_usize_shr1(x: usize) ensures #[trigger] (x >> 1) == x / 2 { assert((x >> 1) == x / 2) by (bit_vector); }
pub broadcast proof fn lemma_usize_shr2(x: usize) ensures #[trigger] (x >> 2) == x / 4 { assert((x >> 2) == x / 4) by (bit_vector); }
pub broadcast proof fn lemma_usize_shr3(x: usize) ensures #[trigger] (x >> 3) == x / 8 { assert((x >> 3) == x / 8) by (bit_vector); }
pub broadcast proof fn lemma_usize_shr4(x: usize) ensures #[trigger] (x >> 4) == x / 16 { assert((x >> 4) == x / 16) by (bit_vector); }
pub broadcast proof fn lemma_usize_shr8(x: usize) ensures #[trigger] (x >> 8) == x / 256 { assert((x >> 8) == x / 256) by (bit_vector); }
pub broadcast proof fn lemma_usize_and1(x: usize) ensures #[trigger] (x & 1) == x % 2 { assert((x & 1) == x % 2) by (bit_vector); }
pub broadcast proof fn lemma_usize_and7(x: usize) ensures #[trigger] (x & 7) == x % 8 { assert((x & 7) == x % 8) by (bit_vector); }
pub broadcast proof fn lemma_usize_and255(x: usize) ensures #[trigger] (x & 255) == x % 256 { assert((x & 255) == x % 256) by (bit_vector); }
pub broadcast proof fn lemma_usize_shl1(x: usize) requires x * 2 <= usize::MAX ensures #[trigger] (x << 1) == x * 2 {
    let y: u64 = x as u64;
    assert(y <= 0x7fff_ffff_ffff_ffffu64 ==> (y << 1) == y * 2) by (bit_vector);
    assert((x << 1) == ((y << 1) as usize)) by (bit_vector) requires y == x as u64;
}
pub broadcast proof fn lemma_usize_shl3(x: usize) requires x * 8 <= usize::MAX ensures #[trigger] (x << 3) == x * 8 {
    let y: u64 = x as u64;
    assert(y <= 0x1fff_ffff_ffff_ffffu64 ==> (y << 3) == y * 8) by (bit_vector);
    assert((x << 3) == ((y << 3) as usize)) by (bit_vector) requires y == x as u64;
}
/// `x & (x - 1) == 0` is the usual bit trick for "x is a power of two" (x > 0)
pub broadcast proof fn lemma_usize_pow2_trick(x: usize) requires x > 0 ensures #[trigger] (x & ((x - 1) as usize)) == 0 <==> is_pow2(x as nat)
    decreases x
{
    if x == 1 { assert(1usize & 0usize == 0) by (bit_vector); }
    else {
        let h: usize = x / 2;
        lemma_usize_pow2_trick(h);
        if x % 2 == 0 {
            assert(x % 2 == 0 && x > 1 && h == x / 2 ==> ((x & ((x - 1) as usize)) == 0 <==> (h & ((h - 1) as usize)) == 0)) by (bit_vector);
        } else {
            assert(x % 2 == 1 && x > 1 ==> (x & ((x - 1) as usize)) != 0) by (bit_vector);
        }
    }
}
pub broadcast proof fn lemma_u32_shr3(x: u32) ensures #[trigger] (x >> 3) == x / 8 { assert((x >> 3) == x / 8) by (bit_vector); }
pub broadcast proof fn lemma_u32_shr1(x: u32) ensures #[trigger] (x >> 1) == x / 2 { assert((x >> 1) == x / 2) by (bit_vector); }
pub broadcast proof fn lemma_u8_shr4(x: u8) ensures #[trigger] (x >> 4) == x / 16 { assert((x >> 4) == x / 16) by (bit_vector); }
pub broadcast proof fn lemma_u8_and15(x: u8) ensures #[trigger] (x & 15) == x % 16 { assert((x & 15) == x % 16) by (bit_vector); }
pub broadcast proof fn lemma_u8_shl4_or(h: u8, l: u8) requires h < 16, l < 16 ensures #[trigger] ((h << 4) | l) == h * 16 + l {
    assert(h < 16 && l < 16 ==> ((h << 4) | l) == h * 16 + l) by (bit_vector);
}
pub broadcast group group_bitops {
    lemma_usize_shr1, lemma_usize_shr2, lemma_usize_shr3, lemma_usize_shr4, lemma_usize_shr8,
    lemma_usize_and1, lemma_usize_and7, lemma_usize_and255, lemma_usize_shl1, lemma_usize_shl3, lemma_usize_pow2_trick,
    lemma_u32_shr3, lemma_u32_shr1, lemma_u8_shr4, lemma_u8_and15, lemma_u8_shl4_or,
}
