// ---- speclib/digits.rs : digit strings and big-endian byte strings (pure mathematics) ----
pub open spec fn p256(e: nat) -> nat decreases e { if e == 0 { 1 } else { 256 * p256((e - 1) as nat) } }
pub open spec fn p10(e: nat) -> nat decreases e { if e == 0 { 1 } else { 10 * p10((e - 1) as nat) } }

/// big-endian value of a byte sequence:  b[0] * 256^(n-1) + value(b[1..])
pub open spec fn be_val(b: Seq<u8>) -> nat decreases b.len() {
    if b.len() == 0 { 0 } else { b[0] as nat * p256((b.len() - 1) as nat) + be_val(b.skip(1)) }
}

pub proof fn lemma_p256_pos(e: nat) ensures p256(e) >= 1 decreases e { if e > 0 { lemma_p256_pos((e - 1) as nat); } }

pub proof fn lemma_be_bound(b: Seq<u8>)
    ensures be_val(b) < p256(b.len())
    decreases b.len()
{
    if b.len() > 0 {
        lemma_be_bound(b.skip(1));
        let x = be_val(b.skip(1)); let p = p256((b.len() - 1) as nat); let l = b[0] as nat;
        assert(l * p + x < 256 * p) by (nonlinear_arith) requires x < p, l < 256;
    }
}

pub proof fn lemma_be_zeros(b: Seq<u8>)
    requires forall|i: int| 0 <= i < b.len() ==> b[i] == 0
    ensures be_val(b) == 0
    decreases b.len()
{
    if b.len() > 0 {
        lemma_be_zeros(b.skip(1));
        assert(b[0] as nat * p256((b.len() - 1) as nat) == 0) by (nonlinear_arith) requires b[0] == 0;
    }
}

/// appending a least-significant byte
pub proof fn lemma_be_push(b: Seq<u8>, x: u8)
    ensures be_val(b.push(x)) == be_val(b) * 256 + x as nat
    decreases b.len()
{
    let c = b.push(x);
    if b.len() == 0 {
        assert(c.skip(1) =~= Seq::<u8>::empty());
        assert(c.len() == 1);
        assert(p256(0) == 1);
        assert(be_val(c.skip(1)) == 0);
        assert(be_val(c) == c[0] as nat * p256(0) + be_val(c.skip(1)));
        assert(c[0] as nat * p256(0) == x as nat) by (nonlinear_arith) requires c[0] == x, p256(0) == 1;
        assert(be_val(b) == 0);
    } else {
        lemma_be_push(b.skip(1), x);
        assert(c.skip(1) =~= b.skip(1).push(x));
        assert(c[0] == b[0]);
        assert(c.len() == b.len() + 1);
        let p = p256((b.len() - 1) as nat); let h = b[0] as nat; let t = be_val(b.skip(1));
        assert(p256(b.len()) == 256 * p);
        assert(be_val(c) == h * p256(b.len()) + be_val(c.skip(1)));
        assert(be_val(c.skip(1)) == t * 256 + x as nat);
        assert(be_val(b) == h * p + t);
        assert(h * (256 * p) + (t * 256 + x as nat) == (h * p + t) * 256 + x as nat) by (nonlinear_arith);
    }
}

/// value of the suffix b[k..]
pub open spec fn suf(b: Seq<u8>, k: int) -> nat { be_val(b.skip(k)) }

pub proof fn lemma_suf_step(b: Seq<u8>, k: int)
    requires 0 <= k < b.len()
    ensures suf(b, k) == b[k] as nat * p256((b.len() - k - 1) as nat) + suf(b, k + 1)
{
    assert(b.skip(k).skip(1) =~= b.skip(k + 1));
    assert(b.skip(k)[0] == b[k]);
    assert(b.skip(k).len() == b.len() - k);
}

pub proof fn lemma_suf_ends(b: Seq<u8>)
    ensures suf(b, b.len() as int) == 0, suf(b, 0) == be_val(b)
{
    assert(b.skip(b.len() as int) =~= Seq::<u8>::empty());
    assert(b.skip(0) =~= b);
}

/// suffixes of sequences that agree from k on are equal
pub proof fn lemma_suf_agree(a: Seq<u8>, b: Seq<u8>, k: int)
    requires a.len() == b.len(), 0 <= k <= a.len(), forall|j: int| k <= j < a.len() ==> a[j] == b[j]
    ensures suf(a, k) == suf(b, k)
{
    assert(a.skip(k) =~= b.skip(k));
}

// ---------------- decimal digit strings ----------------
pub open spec fn is_dec(c: char) -> bool { '0' <= c && c <= '9' }
pub open spec fn dval(c: char) -> nat { (c as nat - '0' as nat) as nat }
pub open spec fn all_dec(s: Seq<char>) -> bool { forall|i: int| 0 <= i < s.len() ==> is_dec(#[trigger] s[i]) }

/// mathematical value of a decimal digit string (most significant first); 0 for the empty string
pub open spec fn dec_val(s: Seq<char>) -> nat decreases s.len() {
    if s.len() == 0 { 0 } else { dec_val(s.drop_last()) * 10 + dval(s.last()) }
}

/// s without its leading '0' characters
pub open spec fn strip0(s: Seq<char>) -> Seq<char> decreases s.len() {
    if s.len() > 0 && s[0] == '0' { strip0(s.skip(1)) } else { s }
}

pub proof fn lemma_dec_val_zero_front(s: Seq<char>)
    requires s.len() > 0, s[0] == '0'
    ensures dec_val(s) == dec_val(s.skip(1))
    decreases s.len()
{
    if s.len() == 1 {
        assert(s.drop_last() =~= Seq::<char>::empty());
        assert(s.skip(1) =~= Seq::<char>::empty());
        assert(dec_val(s.drop_last()) == 0);
    } else {
        lemma_dec_val_zero_front(s.drop_last());
        assert(s.drop_last().skip(1) =~= s.skip(1).drop_last());
        assert(s.skip(1).last() == s.last());
    }
}

pub proof fn lemma_strip0(s: Seq<char>)
    ensures
        dec_val(strip0(s)) == dec_val(s),
        all_dec(strip0(s)) <==> all_dec(s),
        strip0(s).len() <= s.len(),
        strip0(s).len() > 0 ==> strip0(s)[0] != '0',
    decreases s.len()
{
    if s.len() > 0 && s[0] == '0' {
        lemma_strip0(s.skip(1));
        lemma_dec_val_zero_front(s);
        let t = s.skip(1);
        if all_dec(t) {
            assert forall|i: int| 0 <= i < s.len() implies is_dec(#[trigger] s[i]) by {
                if i > 0 { assert(s[i] == t[i - 1]); }
            }
        }
        if all_dec(s) {
            assert forall|i: int| 0 <= i < t.len() implies is_dec(#[trigger] t[i]) by { assert(t[i] == s[i + 1]); }
        }
    }
}

pub proof fn lemma_dec_prefix_le(s: Seq<char>, i: int)
    requires 0 <= i <= s.len()
    ensures dec_val(s.take(i)) <= dec_val(s)
    decreases s.len() - i
{
    if i == s.len() {
        assert(s.take(i) =~= s);
    } else {
        lemma_dec_prefix_le(s.drop_last(), i);
        assert(s.drop_last().take(i) =~= s.take(i));
    }
}

pub proof fn lemma_dec_take_step(s: Seq<char>, i: int)
    requires 0 <= i < s.len()
    ensures dec_val(s.take(i + 1)) == dec_val(s.take(i)) * 10 + dval(s[i])
{
    assert(s.take(i + 1).drop_last() =~= s.take(i));
    assert(s.take(i + 1).last() == s[i]);
}

/// a digit string without leading zero and n >= 1 digits is at least 10^(n-1)
pub proof fn lemma_dec_lower(s: Seq<char>)
    requires s.len() >= 1, all_dec(s), s[0] != '0'
    ensures dec_val(s) >= p10((s.len() - 1) as nat)
    decreases s.len()
{
    if s.len() == 1 {
        assert(s.drop_last() =~= Seq::<char>::empty());
        assert(dec_val(s.drop_last()) == 0);
        assert(s.last() == s[0]);
        assert(dec_val(s) == dec_val(s.drop_last()) * 10 + dval(s.last()));
        assert(dec_val(s) == dval(s[0]));
        assert(is_dec(s[0]));
        assert(p10(0) == 1);
    } else {
        let t = s.drop_last();
        assert(all_dec(t)) by { assert forall|i: int| 0 <= i < t.len() implies is_dec(#[trigger] t[i]) by { assert(t[i] == s[i]); } }
        assert(t[0] == s[0]);
        lemma_dec_lower(t);
        assert(p10((s.len() - 1) as nat) == 10 * p10((s.len() - 2) as nat));
    }
}

pub proof fn lemma_p10_mono(a: nat, b: nat) requires a <= b ensures p10(a) <= p10(b) decreases b {
    if a < b { lemma_p10_mono(a, (b - 1) as nat); }
}

pub proof fn lemma_p256_pow2(e: nat) ensures p256(e) == pow2(8 * e) decreases e {
    if e > 0 {
        lemma_p256_pow2((e - 1) as nat);
        lemma_pow2_add(8, (8 * (e - 1)) as nat);
        assert(pow2(8) == 256) by (compute);
        assert(8 + 8 * (e - 1) == 8 * e);
    }
}

pub proof fn lemma_10_78_gt_2_256()
    ensures p10(78) > p256(32)
{
    assert(p10(78) > p256(32)) by (compute);
}

// ---------------- hexadecimal digit strings ----------------
pub open spec fn is_hex(c: char) -> bool { ('0' <= c && c <= '9') || ('a' <= c && c <= 'f') || ('A' <= c && c <= 'F') }
pub open spec fn hval(c: char) -> nat {
    if '0' <= c && c <= '9' { (c as nat - '0' as nat) as nat }
    else if 'a' <= c && c <= 'f' { (c as nat - 'a' as nat + 10) as nat }
    else { (c as nat - 'A' as nat + 10) as nat }
}
pub open spec fn all_hex(s: Seq<char>) -> bool { forall|i: int| 0 <= i < s.len() ==> is_hex(#[trigger] s[i]) }
/// mathematical value of a hex digit string (most significant first)
pub open spec fn hex_val(s: Seq<char>) -> nat decreases s.len() {
    if s.len() == 0 { 0 } else { hex_val(s.drop_last()) * 16 + hval(s.last()) }
}
/// the bytes a hex string of even length denotes, in order
pub open spec fn hex_bytes(s: Seq<char>) -> Seq<u8> {
    Seq::new((s.len() / 2) as nat, |i: int| (hval(s[2 * i]) * 16 + hval(s[2 * i + 1])) as u8)
}

pub proof fn lemma_hval_bound(c: char) requires is_hex(c) ensures hval(c) < 16 {}

/// the big-endian value of the bytes of a hex string is the value of the string
pub proof fn lemma_hex_bytes_val(s: Seq<char>)
    requires s.len() % 2 == 0, all_hex(s)
    ensures be_val(hex_bytes(s)) == hex_val(s)
    decreases s.len()
{
    if s.len() == 0 {
        assert(hex_bytes(s) =~= Seq::<u8>::empty());
    } else {
        let t = s.drop_last().drop_last();
        assert(t.len() == s.len() - 2);
        assert(all_hex(t)) by { assert forall|i: int| 0 <= i < t.len() implies is_hex(#[trigger] t[i]) by { assert(t[i] == s[i]); } }
        lemma_hex_bytes_val(t);
        let n = (s.len() / 2) as int;
        let hi = s[s.len() - 2]; let lo = s[s.len() - 1];
        assert(is_hex(hi) && is_hex(lo));
        lemma_hval_bound(hi); lemma_hval_bound(lo);
        let b = (hval(hi) * 16 + hval(lo)) as u8;
        assert(hex_bytes(s) =~= hex_bytes(t).push(b)) by {
            assert(hex_bytes(s).len() == n);
            assert forall|i: int| 0 <= i < n implies hex_bytes(s)[i] == hex_bytes(t).push(b)[i] by {
                if i < n - 1 { assert(t[2 * i] == s[2 * i]); assert(t[2 * i + 1] == s[2 * i + 1]); }
            }
        }
        lemma_be_push(hex_bytes(t), b);
        let s1 = s.drop_last();
        assert(s1.last() == hi);
        assert(s1.drop_last() =~= t);
        assert(s.last() == lo);
        assert(hex_val(s1) == hex_val(t) * 16 + hval(hi));
        assert(hex_val(s) == hex_val(s1) * 16 + hval(lo));
        assert(hex_val(s) == (hex_val(t) * 16 + hval(hi)) * 16 + hval(lo));
        assert(b as nat == hval(hi) * 16 + hval(lo));
    }
}

// ---------------- little-endian decimal digit vectors (U256 Display) ----------------
/// value of a digit vector, least significant digit first
pub open spec fn le_dec(d: Seq<u8>) -> nat decreases d.len() {
    if d.len() == 0 { 0 } else { d[0] as nat + 10 * le_dec(d.skip(1)) }
}
pub open spec fn all_digits(d: Seq<u8>) -> bool { forall|i: int| 0 <= i < d.len() ==> #[trigger] d[i] < 10 }

pub proof fn lemma_le_dec_push(d: Seq<u8>, x: u8)
    ensures le_dec(d.push(x)) == le_dec(d) + x as nat * p10(d.len())
    decreases d.len()
{
    if d.len() == 0 {
        assert(d.push(x).skip(1) =~= Seq::<u8>::empty());
        assert(p10(0) == 1);
        assert(x as nat * 1 == x as nat);
        assert(le_dec(d.push(x)) == x as nat + 10 * le_dec(d.push(x).skip(1)));
    } else {
        lemma_le_dec_push(d.skip(1), x);
        assert(d.push(x).skip(1) =~= d.skip(1).push(x));
        assert(d.push(x)[0] == d[0]);
        let t = le_dec(d.skip(1)); let p = p10((d.len() - 1) as nat); let xn = x as nat;
        assert(p10(d.len()) == 10 * p);
        assert(10 * (t + xn * p) == 10 * t + xn * (10 * p)) by (nonlinear_arith);
    }
}

/// prefix value: the first k bytes as a big-endian number
pub open spec fn pre(b: Seq<u8>, k: int) -> nat { be_val(b.take(k)) }

pub proof fn lemma_pre_step(b: Seq<u8>, k: int)
    requires 0 <= k < b.len()
    ensures pre(b, k + 1) == pre(b, k) * 256 + b[k] as nat
{
    assert(b.take(k + 1) =~= b.take(k).push(b[k]));
    lemma_be_push(b.take(k), b[k]);
}
