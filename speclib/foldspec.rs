// ---- speclib/foldspec.rs : left fold with failure (C08) ----
/// f(e_k, ... f(e_2, f(e_1, init))): elements in order, accumulator threaded; None = some application failed
pub open spec fn foldl(f: Term, es: Seq<Val>, acc: Option<Val>) -> Option<Val> decreases es.len() {
    if acc is None { None }
    else if es.len() == 0 { acc }
    else { foldl(f, es.skip(1), eval(f, pv(es[0], acc->Some_0))) }
}

pub proof fn lemma_foldl_none(f: Term, es: Seq<Val>)
    ensures foldl(f, es, None) is None
{}

pub proof fn lemma_foldl_append(f: Term, xs: Seq<Val>, ys: Seq<Val>, acc: Option<Val>)
    ensures foldl(f, xs + ys, acc) == foldl(f, ys, foldl(f, xs, acc))
    decreases xs.len()
{
    if acc is None {
    } else if xs.len() == 0 {
        assert(xs + ys =~= ys);
    } else {
        assert((xs + ys).skip(1) =~= xs.skip(1) + ys);
        assert((xs + ys)[0] == xs[0]);
        lemma_foldl_append(f, xs.skip(1), ys, eval(f, pv(xs[0], acc->Some_0)));
    }
}

pub proof fn lemma_foldl_one(f: Term, es: Seq<Val>, a: Val)
    requires es.len() == 1
    ensures foldl(f, es, Some(a)) == eval(f, pv(es[0], a))
{
    reveal_with_fuel(foldl, 2);
    assert(es.skip(1).len() == 0);
    let x = eval(f, pv(es[0], a));
    if x is None { } else { }
}

/// fa folds every array block of exactly n elements
pub open spec fn inv_array(fa: Term, f: Term, n: nat) -> bool {
    forall|es: Seq<Val>, a: Val| es.len() == n ==> #[trigger] eval(fa, pv(arr_val(es), a)) == foldl(f, es, Some(a))
}
/// ff folds every list of fewer than b elements laid out as List<_, b>
pub open spec fn inv_fold(ff: Term, f: Term, b: nat) -> bool {
    forall|es: Seq<Val>, a: Val| es.len() < b ==> #[trigger] eval(ff, pv(list_val(es, b), a)) == foldl(f, es, Some(a))
}
