// ---- speclib/forwhile.rs : bounded loop with early exit (C09) ----
pub open spec fn t_bit(b: bool) -> Term { if b { Term::InjR(bx(Term::Unit)) } else { Term::InjL(bx(Term::Unit)) } }

/// for_while_0 f := (OH ▵ (IH ▵ false); f) ▵ IH; case (injl OH) (OH ▵ (IH ▵ true); f)
pub open spec fn fw0(f: Term) -> Term {
    let oh = wrap_sel(Term::Iden, seq![false]);
    let ih = wrap_sel(Term::Iden, seq![true]);
    let out0 = Term::Comp(bx(Term::Pair(bx(oh), bx(Term::Pair(bx(ih), bx(t_bit(false)))))), bx(f));
    let case_in = Term::Pair(bx(out0), bx(ih));
    let x = Term::InjL(bx(oh));
    let out1 = Term::Comp(bx(Term::Pair(bx(oh), bx(Term::Pair(bx(ih), bx(t_bit(true)))))), bx(f));
    Term::Comp(bx(case_in), bx(Term::Case(bx(x), bx(out1))))
}
/// adapt f := OH ▵ (IOOH ▵ (IOIH ▵ IIH)); f
pub open spec fn adapt(f: Term) -> Term {
    let oh = wrap_sel(Term::Iden, seq![false]);
    let iooh = wrap_sel(Term::Iden, seq![true, false, false]);
    let ioih = wrap_sel(Term::Iden, seq![true, false, true]);
    let iih = wrap_sel(Term::Iden, seq![true, true]);
    Term::Comp(bx(Term::Pair(bx(oh), bx(Term::Pair(bx(iooh), bx(Term::Pair(bx(ioih), bx(iih))))))), bx(f))
}
/// for_while_(n+1) f := for_while_n (for_while_n (adapt f))
pub open spec fn fw(n: nat, t: Term) -> Term decreases n {
    if n == 0 { fw0(t) } else { fw((n - 1) as nat, fw((n - 1) as nat, adapt(t))) }
}


pub type Step = spec_fn(Val, Val, nat) -> Option<Val>;

/// the loop body as the term defines it: g_t(acc, ctx, i) = t applied to (acc, (ctx, i as a 2^n-bit word))
pub open spec fn step_of(t: Term, n: nat) -> Step {
    |a: Val, c: Val, k: nat| eval(t, pv(a, pv(c, word(n, k))))
}

/// C09: iterate i = lo, lo+1, .. < hi threading the accumulator and passing ctx unchanged; a non-final iteration
/// that yields Left(b) ends the loop with Left(b) WITHOUT evaluating any later iteration, one that yields Right(a')
/// continues with a'; the final iteration's result is the loop's result; failure propagates.
pub open spec fn run(g: Step, c: Val, a: Val, lo: nat, hi: nat) -> Option<Val> decreases hi - lo {
    if lo + 1 >= hi { g(a, c, lo) } else {
        match g(a, c, lo) {
            Some(Val::L(b)) => Some(Val::L(b)),
            Some(Val::R(a1)) => run(g, c, *a1, lo + 1, hi),
            _ => None,
        }
    }
}

/// how a completed segment's result is continued
pub open spec fn cont(r: Option<Val>, k: spec_fn(Val) -> Option<Val>) -> Option<Val> {
    match r { Some(Val::L(b)) => Some(Val::L(b)), Some(Val::R(a1)) => k(*a1), _ => None }
}

pub proof fn lemma_run_split(g: Step, c: Val, a: Val, lo: nat, mid: nat, hi: nat)
    requires lo < mid < hi
    ensures run(g, c, a, lo, hi) == cont(run(g, c, a, lo, mid), |a1: Val| run(g, c, a1, mid, hi))
    decreases mid - lo
{
    if lo + 1 >= mid {
        assert(run(g, c, a, lo, mid) == g(a, c, lo));
    } else {
        match g(a, c, lo) {
            Some(Val::R(a1)) => { lemma_run_split(g, c, *a1, lo + 1, mid, hi); }
            _ => {}
        }
    }
}

/// runs of step functions that agree (up to an index shift and a change of context) are equal
pub proof fn lemma_run_shift(g1: Step, c1: Val, g2: Step, c2: Val, a: Val, lo: nat, hi: nat, base: nat)
    requires lo < hi, forall|x: Val, k: nat| lo <= k < hi ==> #[trigger] g1(x, c1, k) == g2(x, c2, base + k)
    ensures run(g1, c1, a, lo, hi) == run(g2, c2, a, base + lo, base + hi)
    decreases hi - lo
{
    assert(g1(a, c1, lo) == g2(a, c2, base + lo));
    if lo + 1 >= hi {
    } else {
        match g1(a, c1, lo) {
            Some(Val::R(a1)) => { lemma_run_shift(g1, c1, g2, c2, *a1, lo + 1, hi, base); assert(base + (lo + 1) == base + lo + 1); }
            _ => {}
        }
    }
}

/// the outer step of a nested loop: run the inner loop over the m indices h*m .. h*m+m
pub open spec fn outer_step(g: Step, m: nat) -> Step {
    |a: Val, c: Val, h: nat| run(g, c, a, h * m, h * m + m)
}

/// nested loops over (hi, lo) = one loop over hi*m + lo
pub proof fn lemma_run_nested(g: Step, c: Val, a: Val, h: nat, h_end: nat, m: nat)
    requires h < h_end, m >= 1
    ensures run(outer_step(g, m), c, a, h, h_end) == run(g, c, a, h * m, h_end * m)
    decreases h_end - h
{
    let og = outer_step(g, m);
    assert(h * m + m == (h + 1) * m) by (nonlinear_arith);
    assert(og(a, c, h) == run(g, c, a, h * m, h * m + m));
    if h + 1 >= h_end {
        assert(h_end == h + 1);
    } else {
        assert((h + 1) * m < h_end * m) by (nonlinear_arith) requires h + 1 < h_end, m >= 1;
        assert(h * m < (h + 1) * m) by (nonlinear_arith) requires m >= 1;
        lemma_run_split(g, c, a, h * m, (h + 1) * m, h_end * m);
        match og(a, c, h) {
            Some(Val::R(a1)) => { lemma_run_nested(g, c, *a1, h + 1, h_end, m); }
            _ => {}
        }
    }
}

pub proof fn lemma_cnt_pos(n: nat) ensures cnt(n) >= 2 decreases n {
    if n > 0 { lemma_cnt_pos((n - 1) as nat); assert(cnt((n - 1) as nat) * cnt((n - 1) as nat) >= 2) by (nonlinear_arith) requires cnt((n - 1) as nat) >= 2; }
}

pub proof fn lemma_word_pair(n: nat, hi: nat, lo: nat)
    requires hi < cnt(n), lo < cnt(n)
    ensures word(n + 1, hi * cnt(n) + lo) == pv(word(n, hi), word(n, lo))
{
    let m = cnt(n);
    lemma_cnt_pos(n);
    let k = hi * m + lo;
    vstd::arithmetic::div_mod::lemma_fundamental_div_mod_converse(k as int, m as int, hi as int, lo as int);
    assert(((n + 1) - 1) as nat == n);
}

pub proof fn lemma_sel3(v: Val)
    ensures
        eval(wrap_sel(Term::Iden, seq![false]), v) == sel(v, seq![false]),
        eval(wrap_sel(Term::Iden, seq![true]), v) == sel(v, seq![true]),
        eval(wrap_sel(Term::Iden, seq![true, true]), v) == sel(v, seq![true, true]),
        eval(wrap_sel(Term::Iden, seq![true, false, false]), v) == sel(v, seq![true, false, false]),
        eval(wrap_sel(Term::Iden, seq![true, false, true]), v) == sel(v, seq![true, false, true]),
{
    lemma_wrap_sel_is_path(seq![false], v); lemma_wrap_sel_is_path(seq![true], v); lemma_wrap_sel_is_path(seq![true, true], v);
    lemma_wrap_sel_is_path(seq![true, false, false], v); lemma_wrap_sel_is_path(seq![true, false, true], v);
}

pub proof fn lemma_t_bit(b: bool, v: Val)
    ensures eval(t_bit(b), v) == Some(bit_val(b))
{
    reveal_with_fuel(eval, 2);
}

/// semantics of for_while_0: counter 0, then (only after a Right) counter 1
pub proof fn lemma_fw0(t: Term, a: Val, c: Val)
    ensures eval(fw0(t), pv(a, c)) == run(step_of(t, 0), c, a, 0, 2)
{
    let g = step_of(t, 0);
    let v = pv(a, c);
    let oh = wrap_sel(Term::Iden, seq![false]);
    let ih = wrap_sel(Term::Iden, seq![true]);
    lemma_sel3(v);
    reveal_with_fuel(sel, 2);
    assert(seq![false].skip(1) =~= Seq::<bool>::empty()); assert(seq![true].skip(1) =~= Seq::<bool>::empty());
    assert(eval(oh, v) == Some(a)); assert(eval(ih, v) == Some(c));
    reveal_with_fuel(run, 3);
    assert(word(0, 0) == bit_val(false)); assert(word(0, 1) == bit_val(true));
    let in0 = Term::Pair(bx(oh), bx(Term::Pair(bx(ih), bx(t_bit(false)))));
    lemma_t_bit(false, v);
    assert(eval(t_bit(false), v) == Some(bit_val(false)));
    assert(eval(Term::Pair(bx(ih), bx(t_bit(false))), v) == Some(pv(c, bit_val(false))));
    assert(eval(in0, v) == Some(pv(a, pv(c, bit_val(false)))));
    assert(eval(t, pv(a, pv(c, word(0, 0)))) == g(a, c, 0));
    let out0 = Term::Comp(bx(in0), bx(t));
    assert(eval(out0, v) == g(a, c, 0));
    let case_in = Term::Pair(bx(out0), bx(ih));
    let x = Term::InjL(bx(oh));
    let in1 = Term::Pair(bx(oh), bx(Term::Pair(bx(ih), bx(t_bit(true)))));
    let out1 = Term::Comp(bx(in1), bx(t));
    let cs = Term::Case(bx(x), bx(out1));
    assert(fw0(t) == Term::Comp(bx(case_in), bx(cs)));
    assert(run(g, c, a, 0, 2) == cont(g(a, c, 0), |a1: Val| g(a1, c, 1))) by {
        match g(a, c, 0) { Some(Val::R(a1)) => { assert(run(g, c, *a1, 1, 2) == g(*a1, c, 1)); } _ => {} }
    }
    match g(a, c, 0) {
        Some(Val::L(b)) => {
            let w = pv(Val::L(b), c);
            assert(eval(case_in, v) == Some(w));
            let v0 = pv(*b, c);
            lemma_sel3(v0);
            assert(eval(oh, v0) == Some(*b));
            assert(eval(x, v0) == Some(lv(*b)));
            assert(eval(cs, w) == eval(x, v0));
            assert(eval(fw0(t), v) == Some(Val::L(b)));
        }
        Some(Val::R(a1)) => {
            let w = pv(Val::R(a1), c);
            assert(eval(case_in, v) == Some(w));
            let v1 = pv(*a1, c);
            lemma_sel3(v1);
            assert(eval(oh, v1) == Some(*a1)); assert(eval(ih, v1) == Some(c));
            lemma_t_bit(true, v1);
            assert(eval(t_bit(true), v1) == Some(bit_val(true)));
            assert(eval(Term::Pair(bx(ih), bx(t_bit(true))), v1) == Some(pv(c, bit_val(true))));
            assert(eval(in1, v1) == Some(pv(*a1, pv(c, bit_val(true)))));
            assert(eval(out1, v1) == g(*a1, c, 1));
            assert(eval(cs, w) == eval(out1, v1));
            assert(eval(fw0(t), v) == g(*a1, c, 1));
        }
        Some(Val::Unit) => { assert(eval(case_in, v) == Some(pv(Val::Unit, c))); assert(eval(cs, pv(Val::Unit, c)) is None); }
        Some(Val::P(p, q)) => { assert(eval(case_in, v) == Some(pv(Val::P(p, q), c))); assert(eval(cs, pv(Val::P(p, q), c)) is None); }
        None => { assert(eval(case_in, v) is None); }
    }
}

/// semantics of adapt: regroup ((ctx, hi), lo) into (ctx, (hi, lo))
pub proof fn lemma_adapt(t: Term, a: Val, c: Val, hi: Val, lo: Val)
    ensures eval(adapt(t), pv(a, pv(pv(c, hi), lo))) == eval(t, pv(a, pv(c, pv(hi, lo))))
{
    let v = pv(a, pv(pv(c, hi), lo));
    lemma_sel3(v);
    reveal_with_fuel(sel, 4);
    assert(seq![false].skip(1) =~= Seq::<bool>::empty());
    assert(seq![true, true].skip(1) =~= seq![true]); assert(seq![true].skip(1) =~= Seq::<bool>::empty());
    assert(seq![true, false, false].skip(1) =~= seq![false, false]); assert(seq![false, false].skip(1) =~= seq![false]);
    assert(seq![true, false, true].skip(1) =~= seq![false, true]); assert(seq![false, true].skip(1) =~= seq![true]);
    let oh = wrap_sel(Term::Iden, seq![false]);
    let iooh = wrap_sel(Term::Iden, seq![true, false, false]);
    let ioih = wrap_sel(Term::Iden, seq![true, false, true]);
    let iih = wrap_sel(Term::Iden, seq![true, true]);
    assert(eval(oh, v) == Some(a));
    assert(eval(iooh, v) == Some(c));
    assert(eval(ioih, v) == Some(hi));
    assert(eval(iih, v) == Some(lo));
    assert(eval(Term::Pair(bx(ioih), bx(iih)), v) == Some(pv(hi, lo)));
    assert(eval(Term::Pair(bx(iooh), bx(Term::Pair(bx(ioih), bx(iih)))), v) == Some(pv(c, pv(hi, lo))));
    let inp = Term::Pair(bx(oh), bx(Term::Pair(bx(iooh), bx(Term::Pair(bx(ioih), bx(iih))))));
    assert(eval(inp, v) == Some(pv(a, pv(c, pv(hi, lo)))));
    assert(adapt(t) == Term::Comp(bx(inp), bx(t)));
    assert(eval(Term::Comp(bx(inp), bx(t)), v) == eval(t, pv(a, pv(c, pv(hi, lo)))));
}

/// C09 main theorem: for_while_n over the term t runs the body for counter values 0, 1, 2, .. 2^(2^n) - 1
pub proof fn lemma_fw(n: nat, t: Term, a: Val, c: Val)
    ensures eval(fw(n, t), pv(a, c)) == run(step_of(t, n), c, a, 0, cnt(n))
    decreases n
{
    if n == 0 {
        lemma_fw0(t, a, c);
    } else {
        let n1 = (n - 1) as nat;
        let m = cnt(n1);
        lemma_cnt_pos(n1);
        let u = fw(n1, adapt(t));
        let g = step_of(t, n);
        let gu = step_of(u, n1);
        // outer loop over hi
        lemma_fw(n1, u, a, c);
        assert(eval(fw(n, t), pv(a, c)) == run(gu, c, a, 0, m));
        // each outer step is the inner loop over lo
        let og = outer_step(g, m);
        assert forall|x: Val, h: nat| 0 <= h < m implies #[trigger] gu(x, c, h) == og(x, c, 0 + h) by {
            let c1 = pv(c, word(n1, h));
            lemma_fw(n1, adapt(t), x, c1);
            let ga = step_of(adapt(t), n1);
            assert(gu(x, c, h) == run(ga, c1, x, 0, m));
            assert forall|y: Val, l: nat| 0 <= l < m implies #[trigger] ga(y, c1, l) == g(y, c, h * m + l) by {
                lemma_adapt(t, y, c, word(n1, h), word(n1, l));
                lemma_word_pair(n1, h, l);
                assert(n1 + 1 == n);
            }
            lemma_run_shift(ga, c1, g, c, x, 0, m, h * m);
            assert(h * m + 0 == h * m);
        }
        lemma_run_shift(gu, c, og, c, a, 0, m, 0);
        lemma_run_nested(g, c, a, 0, m, m);
        assert(0 * m == 0) by (nonlinear_arith);
        assert(cnt(n) == m * m);
    }
}

// ---------------- the task stack of compile::for_while ----------------
pub enum TaskS { ForWhile0, Adapt }

/// for_while_n as a sequence of tasks: 0 / 0 0 1 / 0 0 1 0 0 1 1 / ...
pub open spec fn tasks(n: nat) -> Seq<TaskS> decreases n {
    if n == 0 { seq![TaskS::ForWhile0] } else { tasks((n - 1) as nat) + tasks((n - 1) as nat) + seq![TaskS::Adapt] }
}

pub open spec fn apply1(k: TaskS, t: Term) -> Term { match k { TaskS::ForWhile0 => fw0(t), TaskS::Adapt => adapt(t) } }

/// apply the tasks by popping from the end
pub open spec fn apply_tasks(s: Seq<TaskS>, t: Term) -> Term decreases s.len() {
    if s.len() == 0 { t } else { apply_tasks(s.drop_last(), apply1(s.last(), t)) }
}

pub proof fn lemma_apply_concat(a: Seq<TaskS>, b: Seq<TaskS>, t: Term)
    ensures apply_tasks(a + b, t) == apply_tasks(a, apply_tasks(b, t))
    decreases b.len()
{
    if b.len() == 0 {
        assert(a + b =~= a);
    } else {
        assert((a + b).drop_last() =~= a + b.drop_last());
        assert((a + b).last() == b.last());
        lemma_apply_concat(a, b.drop_last(), apply1(b.last(), t));
    }
}

pub proof fn lemma_apply_tasks(n: nat, t: Term)
    ensures apply_tasks(tasks(n), t) == fw(n, t)
    decreases n
{
    if n == 0 {
        assert(tasks(0).drop_last() =~= Seq::<TaskS>::empty());
        reveal_with_fuel(apply_tasks, 2);
    } else {
        let p = tasks((n - 1) as nat);
        let s = p + p + seq![TaskS::Adapt];
        assert(s.drop_last() =~= p + p);
        assert(s.last() == TaskS::Adapt);
        lemma_apply_concat(p, p, adapt(t));
        lemma_apply_tasks((n - 1) as nat, adapt(t));
        lemma_apply_tasks((n - 1) as nat, fw((n - 1) as nat, adapt(t)));
    }
}

pub proof fn lemma_tasks_len(n: nat) ensures tasks(n).len() == 2 * pow2(n) - 1 decreases n {
    if n > 0 { lemma_tasks_len((n - 1) as nat); }
}
