// ---- speclib/layout.rs : the documented structural layout of tuples / arrays / lists (C07, shared with C08, C10) ----
/// index at which a sequence of n >= 2 elements is split: the right part holds the largest
/// power of two strictly below n, i.e. npo2(n)/2 elements.
pub open spec fn split(n: nat) -> nat {
    let h = n - npo2(n) / 2;
    if 0 < h < n { h as nat } else { 1 }
}

pub proof fn lemma_split(n: nat)
    requires n >= 2
    ensures
        0 < split(n) < n,
        split(n) == n - npo2(n) / 2,
        is_pow2((n - split(n)) as nat),          // the right part is a power of two ...
        (n - split(n)) < n,                      // ... strictly below n ...
        2 * (n - split(n)) >= n,                 // ... and the largest such
{
    lemma_npo2(n);
    let p = npo2(n);
    assert(p >= 2);
    lemma_is_pow2_half(p);
}

pub proof fn lemma_split_pow2(n: nat)
    requires is_pow2(n), n >= 2
    ensures split(n) == n / 2
{
    lemma_npo2_pow2(n);
}

/// n-tuple / n-array of values as nested products (empty = unit, singleton = the element itself)
pub open spec fn arr_val(es: Seq<Val>) -> Val decreases es.len() {
    if es.len() == 0 { Val::Unit }
    else if es.len() == 1 { es[0] }
    else { let h = split(es.len()) as int; pv(arr_val(es.take(h)), arr_val(es.skip(h))) }
}

/// `List<A, bound>` holding es (es.len() < bound):  bound = 2: Option<A>;
/// bound = 2b: (Option<[A; b]>, List<A, b>), elements filling the blocks in order
pub open spec fn list_val(es: Seq<Val>, bound: nat) -> Val decreases bound {
    if bound <= 2 {
        if es.len() == 0 { lv(Val::Unit) } else { rv(es[0]) }
    } else {
        let b = (bound / 2) as int;
        if es.len() < b { pv(lv(Val::Unit), list_val(es, (bound / 2) as nat)) }
        else { pv(rv(arr_val(es.take(b))), list_val(es.skip(b), (bound / 2) as nat)) }
    }
}
