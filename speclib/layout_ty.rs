// ---- speclib/layout_ty.rs : the documented structural layout on the TYPE side (C07) ----
/// shape of a finalized Simplicity type
pub enum FTy { One, Sum(Box<FTy>, Box<FTy>), Prod(Box<FTy>, Box<FTy>) }
pub open spec fn f_sum(a: FTy, b: FTy) -> FTy { FTy::Sum(Box::new(a), Box::new(b)) }
pub open spec fn f_prod(a: FTy, b: FTy) -> FTy { FTy::Prod(Box::new(a), Box::new(b)) }
pub open spec fn f_bit() -> FTy { f_sum(FTy::One, FTy::One) }
pub open spec fn f_opt(a: FTy) -> FTy { f_sum(FTy::One, a) }

/// uN (N = 2^k bits) as nested pairs of halves down to bits
pub open spec fn word_ty(k: nat) -> FTy decreases k { if k == 0 { f_bit() } else { f_prod(word_ty((k - 1) as nat), word_ty((k - 1) as nat)) } }

/// n-tuple / n-array: nested products along the split rule (empty = unit, one element = the element)
pub open spec fn seq_ty(ts: Seq<FTy>) -> FTy decreases ts.len() {
    if ts.len() == 0 { FTy::One }
    else if ts.len() == 1 { ts[0] }
    else { let h = split(ts.len()) as int; f_prod(seq_ty(ts.take(h)), seq_ty(ts.skip(h))) }
}
pub open spec fn rep_ty(e: FTy, n: nat) -> Seq<FTy> { Seq::new(n, |i: int| e) }

/// List<A, bound>: bound = 2: Option<A>; bound = 2b: (Option<[A; b]>, List<A, b>)
pub open spec fn list_ty(e: FTy, bound: nat) -> FTy decreases bound {
    if bound <= 2 { f_opt(e) } else { f_prod(f_opt(seq_ty(rep_ty(e, bound / 2))), list_ty(e, bound / 2)) }
}
