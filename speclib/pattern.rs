// ---- speclib/pattern.rs : product patterns, first pre-order occurrence (C10) ----
pub enum Pat { Ignore, Id(Seq<char>), Prod(Box<Pat>, Box<Pat>) }

pub open spec fn occurs(p: Pat, x: Seq<char>) -> bool decreases p {
    match p { Pat::Ignore => false, Pat::Id(y) => y == x, Pat::Prod(l, r) => occurs(*l, x) || occurs(*r, x) }
}
/// take/drop path of the FIRST pre-order (leftmost) occurrence of x in p
pub open spec fn first_path(p: Pat, x: Seq<char>) -> Seq<bool> decreases p {
    match p {
        Pat::Prod(l, r) => if occurs(*l, x) { seq![false] + first_path(*l, x) } else { seq![true] + first_path(*r, x) },
        _ => Seq::empty(),
    }
}
/// a value has the shape the pattern demands
pub open spec fn matches(p: Pat, v: Val) -> bool decreases p {
    match p {
        Pat::Prod(l, r) => match v { Val::P(a, b) => matches(*l, *a) && matches(*r, *b), _ => false },
        _ => true,
    }
}
/// the value a variable denotes: the component at its leftmost occurrence (= its most recent binding, because
/// newer bindings are placed to the left of older ones in the environment pattern)
pub open spec fn bind(p: Pat, v: Val, x: Seq<char>) -> Val decreases p {
    match p {
        Pat::Prod(l, r) => match v {
            Val::P(a, b) => if occurs(*l, x) { bind(*l, *a, x) } else { bind(*r, *b, x) },
            _ => v },
        _ => v,
    }
}

pub proof fn lemma_first_path_selects(p: Pat, v: Val, x: Seq<char>)
    requires matches(p, v), occurs(p, x)
    ensures sel(v, first_path(p, x)) == Some(bind(p, v, x))
    decreases p
{
    match p {
        Pat::Prod(l, r) => {
            match v {
                Val::P(a, b) => {
                    if occurs(*l, x) {
                        lemma_first_path_selects(*l, *a, x);
                        let q = seq![false] + first_path(*l, x);
                        assert(q.skip(1) =~= first_path(*l, x)); assert(q[0] == false);
                    } else {
                        lemma_first_path_selects(*r, *b, x);
                        let q = seq![true] + first_path(*r, x);
                        assert(q.skip(1) =~= first_path(*r, x)); assert(q[0] == true);
                    }
                }
                _ => {}
            }
        }
        _ => {}
    }
}

// ---- the loop of BasePattern::get as a transition system over verbose pre-order events ----
pub struct Ev { pub node: Pat, pub n: nat }

pub open spec fn events(p: Pat) -> Seq<Ev> decreases p {
    match p {
        Pat::Prod(l, r) => seq![Ev { node: p, n: 0 }] + events(*l) + seq![Ev { node: p, n: 1 }] + events(*r) + seq![Ev { node: p, n: 2 }],
        _ => seq![Ev { node: p, n: 0 }],
    }
}
pub enum Out { Found(Seq<bool>), NotFound(Seq<bool>), Panic }

pub open spec fn step(e: Ev, x: Seq<char>, s: Seq<bool>) -> Out {
    match e.node {
        Pat::Id(y) => if y == x { Out::Found(s) } else if s.len() == 0 { Out::Panic } else { Out::NotFound(s.drop_last()) },
        Pat::Ignore => if s.len() == 0 { Out::Panic } else { Out::NotFound(s.drop_last()) },
        Pat::Prod(_, _) => if e.n == 0 { Out::NotFound(s.push(false)) } else if e.n == 1 { Out::NotFound(s.push(true)) }
                           else if e.n != 2 || s.len() == 0 { Out::Panic } else { Out::NotFound(s.drop_last()) },
    }
}
pub open spec fn sim(evs: Seq<Ev>, x: Seq<char>, s: Seq<bool>) -> Out decreases evs.len() {
    if evs.len() == 0 { Out::NotFound(s) } else {
        match step(evs[0], x, s) { Out::NotFound(s1) => sim(evs.skip(1), x, s1), o => o }
    }
}

pub proof fn lemma_sim_append(a: Seq<Ev>, b: Seq<Ev>, x: Seq<char>, s: Seq<bool>)
    ensures sim(a + b, x, s) == match sim(a, x, s) { Out::NotFound(s1) => sim(b, x, s1), o => o }
    decreases a.len()
{
    if a.len() == 0 { assert(a + b =~= b); }
    else {
        assert((a + b)[0] == a[0]);
        assert((a + b).skip(1) =~= a.skip(1) + b);
        match step(a[0], x, s) { Out::NotFound(s1) => lemma_sim_append(a.skip(1), b, x, s1), _ => {} }
    }
}

pub proof fn lemma_sim_tree(p: Pat, x: Seq<char>, s: Seq<bool>)
    ensures sim(events(p), x, s) ==
        if occurs(p, x) { Out::Found(s + first_path(p, x)) }
        else if s.len() == 0 { Out::Panic } else { Out::NotFound(s.drop_last()) }
    decreases p
{
    match p {
        Pat::Prod(l, r) => {
            let e0 = seq![Ev { node: p, n: 0 }]; let e1 = seq![Ev { node: p, n: 1 }]; let e2 = seq![Ev { node: p, n: 2 }];
            let sl = s.push(false); let sr = s.push(true);
            reveal_with_fuel(sim, 2);
            assert(e0.skip(1) =~= Seq::<Ev>::empty()); assert(e1.skip(1) =~= Seq::<Ev>::empty()); assert(e2.skip(1) =~= Seq::<Ev>::empty());
            assert(sim(e0, x, s) == Out::NotFound(sl));
            assert(sim(e1, x, s) == Out::NotFound(sr));
            lemma_sim_tree(*l, x, sl);
            lemma_sim_tree(*r, x, sr);
            assert(sl.drop_last() =~= s); assert(sr.drop_last() =~= s);
            let rest3 = events(*r) + e2; let rest2 = e1 + rest3; let rest1 = events(*l) + rest2;
            assert(events(p) =~= e0 + rest1);
            lemma_sim_append(e0, rest1, x, s);
            lemma_sim_append(events(*l), rest2, x, sl);
            lemma_sim_append(e1, rest3, x, s);
            lemma_sim_append(events(*r), e2, x, sr);
            if occurs(*l, x) {
                assert(s + (seq![false] + first_path(*l, x)) =~= sl + first_path(*l, x));
            } else if occurs(*r, x) {
                assert(s + (seq![true] + first_path(*r, x)) =~= sr + first_path(*r, x));
            } else {
            }
        }
        _ => {
            reveal_with_fuel(sim, 2);
            assert(events(p).skip(1) =~= Seq::<Ev>::empty());
            assert(s + Seq::<bool>::empty() =~= s);
        }
    }
}

/// C10, lookup: the selector built for the first pre-order occurrence of x, applied to any value matching the
/// environment pattern, returns the value bound at that occurrence
pub proof fn lemma_lookup(p: Pat, v: Val, x: Seq<char>)
    requires matches(p, v), occurs(p, x)
    ensures eval(wrap_sel(Term::Iden, first_path(p, x)), v) == Some(bind(p, v, x))
{
    lemma_wrap_sel_is_path(first_path(p, x), v);
    lemma_first_path_selects(p, v, x);
}

/// the environment pattern of a scope stack: bindings [p1, p2, .., pk] (oldest first) nest as
/// (pk, (.., (p2, p1))): a newer binding lies to the left of (and is therefore found before) every older one
pub open spec fn nest(ps: Seq<Pat>) -> Pat decreases ps.len() {
    if ps.len() == 0 { Pat::Ignore }
    else if ps.len() == 1 { ps[0] }
    else { Pat::Prod(Box::new(ps.last()), Box::new(nest(ps.drop_last()))) }
}

/// shadowing: a variable bound by the newest pattern denotes the newest binding, whatever older patterns bind
pub proof fn lemma_newest_shadows(ps: Seq<Pat>, v: Val, x: Seq<char>)
    requires ps.len() >= 2, occurs(ps.last(), x), matches(nest(ps), v)
    ensures match v { Val::P(a, b) => bind(nest(ps), v, x) == bind(ps.last(), *a, x), _ => false }
{
}

/// a variable NOT bound by the newest pattern denotes what it denoted before that binding was added
pub proof fn lemma_older_visible(ps: Seq<Pat>, v: Val, x: Seq<char>)
    requires ps.len() >= 2, !occurs(ps.last(), x), matches(nest(ps), v)
    ensures match v { Val::P(a, b) => bind(nest(ps), v, x) == bind(nest(ps.drop_last()), *b, x), _ => false }
{
}
