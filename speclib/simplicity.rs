// ---- speclib/simplicity.rs : Simplicity terms and their denotational semantics (A-simp transcribes the Bit Machine) ----
pub enum Val { Unit, L(Box<Val>), R(Box<Val>), P(Box<Val>, Box<Val>) }

pub enum Term {
    Iden, Unit,
    InjL(Box<Term>), InjR(Box<Term>),
    Take(Box<Term>), Drop(Box<Term>),
    Comp(Box<Term>, Box<Term>),
    Case(Box<Term>, Box<Term>),
    Pair(Box<Term>, Box<Term>),
    /// assertl s h : case whose right branch is pruned (hidden, identified by an opaque id)
    AssertL(Box<Term>, int),
    /// assertr h t : case whose left branch is pruned
    AssertR(int, Box<Term>),
    Fail,
    /// constant (scribe / const word): ignores its input
    Const(Val),
    /// jets, witnesses: semantics left uninterpreted
    Opaque(int),
}

pub uninterp spec fn opaque_sem(k: int, v: Val) -> Option<Val>;

pub open spec fn pv(a: Val, b: Val) -> Val { Val::P(Box::new(a), Box::new(b)) }
pub open spec fn lv(a: Val) -> Val { Val::L(Box::new(a)) }
pub open spec fn rv(a: Val) -> Val { Val::R(Box::new(a)) }
pub open spec fn bx(t: Term) -> Box<Term> { Box::new(t) }
pub open spec fn bit_val(b: bool) -> Val { if b { rv(Val::Unit) } else { lv(Val::Unit) } }

/// None = the program fails (assertion / fail node / ill-shaped input)
pub open spec fn eval(t: Term, v: Val) -> Option<Val>
    decreases t
{
    match t {
        Term::Iden => Some(v),
        Term::Unit => Some(Val::Unit),
        Term::InjL(s) => match eval(*s, v) { Some(w) => Some(lv(w)), None => None },
        Term::InjR(s) => match eval(*s, v) { Some(w) => Some(rv(w)), None => None },
        Term::Take(s) => match v { Val::P(a, b) => eval(*s, *a), _ => None },
        Term::Drop(s) => match v { Val::P(a, b) => eval(*s, *b), _ => None },
        Term::Comp(s, u) => match eval(*s, v) { Some(w) => eval(*u, w), None => None },
        Term::Pair(s, u) => match eval(*s, v) {
            Some(a) => match eval(*u, v) { Some(b) => Some(pv(a, b)), None => None },
            None => None },
        Term::Case(s, u) => match v {
            Val::P(x, c) => match *x {
                Val::L(a) => eval(*s, pv(*a, *c)),
                Val::R(b) => eval(*u, pv(*b, *c)),
                _ => None },
            _ => None },
        Term::AssertL(s, h) => match v {
            Val::P(x, c) => match *x {
                Val::L(a) => eval(*s, pv(*a, *c)),
                _ => None },
            _ => None },
        Term::AssertR(h, u) => match v {
            Val::P(x, c) => match *x {
                Val::R(b) => eval(*u, pv(*b, *c)),
                _ => None },
            _ => None },
        Term::Fail => None,
        Term::Const(w) => Some(w),
        Term::Opaque(k) => opaque_sem(k, v),
    }
}

/// take/drop path: false = take (O), true = drop (I); innermost selector last
pub open spec fn path_term(sel: Seq<bool>) -> Term decreases sel.len() {
    if sel.len() == 0 { Term::Iden }
    else if sel[0] { Term::Drop(bx(path_term(sel.skip(1)))) } else { Term::Take(bx(path_term(sel.skip(1)))) }
}

/// component of a value addressed by a path
pub open spec fn sel(v: Val, p: Seq<bool>) -> Option<Val> decreases p.len() {
    if p.len() == 0 { Some(v) } else { match v { Val::P(a, b) => if p[0] { sel(*b, p.skip(1)) } else { sel(*a, p.skip(1)) }, _ => None } }
}

pub proof fn lemma_path(p: Seq<bool>, v: Val)
    ensures eval(path_term(p), v) == sel(v, p)
    decreases p.len()
{
    if p.len() == 0 {} else {
        match v { Val::P(a, b) => { if p[0] { lemma_path(p.skip(1), *b); } else { lemma_path(p.skip(1), *a); } }, _ => {} }
    }
}

/// the term `SelectorBuilder::h` builds: wrap `iden` from the last selector to the first
pub open spec fn wrap_sel(t: Term, s: Seq<bool>) -> Term decreases s.len() {
    if s.len() == 0 { t } else {
        wrap_sel(if s.last() { Term::Drop(bx(t)) } else { Term::Take(bx(t)) }, s.drop_last())
    }
}

pub proof fn lemma_wrap_sel(t: Term, s: Seq<bool>, v: Val)
    ensures eval(wrap_sel(t, s), v) == match sel(v, s) { Some(w) => eval(t, w), None => None }
    decreases s.len()
{
    if s.len() == 0 {
    } else {
        let t2 = if s.last() { Term::Drop(bx(t)) } else { Term::Take(bx(t)) };
        lemma_wrap_sel(t2, s.drop_last(), v);
        lemma_sel_snoc(v, s.drop_last(), s.last());
        assert(s.drop_last().push(s.last()) =~= s);
    }
}

pub proof fn lemma_sel_snoc(v: Val, p: Seq<bool>, b: bool)
    ensures sel(v, p.push(b)) == match sel(v, p) {
        Some(w) => match w { Val::P(x, y) => Some(if b { *y } else { *x }), _ => None },
        None => None }
    decreases p.len()
{
    let q = p.push(b);
    if p.len() == 0 {
        assert(q.skip(1) =~= Seq::<bool>::empty());
        assert(q[0] == b);
        reveal_with_fuel(sel, 2);
    } else {
        assert(q.skip(1) =~= p.skip(1).push(b));
        assert(q[0] == p[0]);
        match v {
            Val::P(x, y) => { if p[0] { lemma_sel_snoc(*y, p.skip(1), b); } else { lemma_sel_snoc(*x, p.skip(1), b); } }
            _ => {}
        }
    }
}

pub proof fn lemma_wrap_sel_is_path(s: Seq<bool>, v: Val)
    ensures eval(wrap_sel(Term::Iden, s), v) == sel(v, s)
{
    lemma_wrap_sel(Term::Iden, s, v);
}
