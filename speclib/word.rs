// ---- speclib/word.rs : the uN layout (C07, shared with C09) ----
/// number of values of a counter of 2^n bits: 2^(2^n)
pub open spec fn cnt(n: nat) -> nat decreases n { if n == 0 { 2 } else { cnt((n - 1) as nat) * cnt((n - 1) as nat) } }
/// the 2^n-bit unsigned integer k as nested pairs of halves, most significant half first (the uN layout of C07)
pub open spec fn word(n: nat, k: nat) -> Val decreases n {
    if n == 0 { bit_val(k != 0) } else { let m = cnt((n - 1) as nat); pv(word((n - 1) as nat, k / m), word((n - 1) as nat, k % m)) }
}
