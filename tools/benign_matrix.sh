#!/bin/bash
# Apply every behaviour-preserving patch of /verif/benign to /repo and run ALL claimed checks: a VIOLATION (exit 1) is a false alarm.
cd /verif
ids=$(python3 -c "import json;print(' '.join(c['property_id'] for c in json.load(open('MANIFEST.json'))['checks']))")
out=benign/MATRIX.md
echo "| benign patch | exit codes per check (0 = pass, 2 = undecided, 1 = FALSE ALARM) |" > $out; echo "|---|---|" >> $out
for d in benign/r*/; do
  m=$(basename $d)
  git -C /repo checkout -q -- .
  git -C /repo apply /verif/$d/patch.diff || { echo "| $m | patch does not apply |" >> $out; continue; }
  line=""
  for p in $ids; do
    res=$(VERIF_EVIDENCE_DIR=/verif/out/evidence-seed ./check $p quick 2>&1); rc=$?
    line="$line $p=$rc"
    if [ $rc = 1 ]; then echo "FALSE ALARM $m $p"; echo "$res" | grep -E "failed obligation|failing input" | cut -c1-300 | head -4; fi
  done
  echo "| $m |$line |" >> $out
  git -C /repo checkout -q -- .
  echo "$m:$line"
done
