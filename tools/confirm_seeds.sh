#!/bin/bash
# Re-confirm every seeded change in its scratch worktree: demo passes on clean tree, existing suite passes with the patch, demo fails with the patch.
for wt in "$@"; do
  for m in $wt/seeded_out/m*; do
    [ -f $m/patch.diff ] || continue
    cd $wt; git checkout -q -- . ; rm -rf tests
    export CARGO_TARGET_DIR=$wt/target
    mkdir -p tests; cp $m/demo.rs tests/demo.rs
    cargo test --offline --test demo >/tmp/sc.out 2>&1; a=$?
    rm -rf tests
    git apply $m/patch.diff || { echo "$m APPLY-FAILED"; continue; }
    cargo test --workspace --offline >/tmp/sc2.out 2>&1; b=$?
    mkdir -p tests; cp $m/demo.rs tests/demo.rs
    cargo test --offline --test demo >/tmp/sc3.out 2>&1; c=$?
    rm -rf tests; git checkout -q -- .
    echo "$m clean-demo-rc=$a suite-with-patch-rc=$b demo-with-patch-rc=$c"
  done
done
