#!/usr/bin/env python3
"""Long bounded exploration of all searchers on the current /repo tree (not evidence; for finding defects / false alarms)."""
import sys, os, random, time, json
sys.path.insert(0, os.path.dirname(os.path.dirname(os.path.abspath(__file__))))
from vt import replay as rp
budget = int(sys.argv[1]) if len(sys.argv) > 1 else 20000
seeds = int(sys.argv[2]) if len(sys.argv) > 2 else 10
d = rp.Driver()
assert d.build(), d.build_log
names = sorted(set(rp.SEARCHERS))
for seed in range(100, 100 + seeds):
    for nm in names:
        f = rp.SEARCHERS[nm]
        t = time.time()
        os.environ["VERIF_TIER"] = "thorough"
        try:
            import inspect
            w = f(d, random.Random(seed), budget, obligation="") if "obligation" in inspect.signature(f).parameters else f(d, random.Random(seed), budget)
        except Exception as e:
            print("seed", seed, nm, "EXCEPTION", repr(e)); continue
        if w:
            print("seed", seed, nm, "HIT", json.dumps({k: w[k] for k in ("call", "input", "expected", "observed") if k in w})[:1500])
    print("seed", seed, "done", flush=True)
d.close()
print("fuzz soak finished")
