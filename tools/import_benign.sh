#!/bin/bash
# usage: tools/import_benign.sh <worktree> <outdir>  -- re-check that each behaviour-preserving patch applies and the suite passes; copy to /verif/benign/r<next>
wt=$1; out=$2
export CARGO_TARGET_DIR=$wt/target CARGO_NET_OFFLINE=true
cd $wt
for m in $out/r*/; do
  m=${m%/}; [ -f $m/patch.diff ] || continue
  git checkout -q -- .
  git apply $m/patch.diff || { echo "$m APPLY-FAILED"; continue; }
  cargo test --workspace --offline > $m.suite.log 2>&1; b=$?
  git checkout -q -- .
  echo "$m suite-with-patch-rc=$b"
  if [ $b = 0 ]; then
    ( flock 9; k=1; while [ -d /verif/benign/r$k ]; do k=$((k+1)); done; mkdir -p /verif/benign/r$k; cp $m/patch.diff $m/meta.json /verif/benign/r$k/; echo "  -> benign/r$k" ) 9>/tmp/benign.lock
  fi
done
