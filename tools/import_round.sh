#!/bin/bash
# usage: tools/import_round.sh <worktree> <outdir>   -- a sub-agent delivered outdir/mN/{patch.diff,demo.rs,meta.json} for SEVERAL properties:
# the property id is read from each meta.json, the changes are grouped by property and handed to tools/import_seeds2.sh
wt=$1; out=$2; split=$out-split
rm -rf $split
for m in $out/m*/; do
  m=${m%/}; [ -f $m/meta.json ] || continue
  p=$(python3 -c "import json,re;print(re.search(r'C\d\d', json.load(open('$m/meta.json')).get('property','')).group(0))" 2>/dev/null)
  [ -z "$p" ] && { echo "no property id in $m/meta.json"; continue; }
  mkdir -p $split/$p; cp -r $m $split/$p/
done
for pd in $split/*/; do /verif/tools/import_seeds2.sh $wt ${pd%/} $(basename $pd); done
