#!/bin/bash
# usage: tools/import_seeds.sh <worktree> <PROP>  -- confirm (clean demo passes, suite passes with patch, demo fails with patch) and copy to /verif/seeded
wt=$1; pid=$2
for m in $wt/seeded_out/*/; do
  m=${m%/}; [ -f $m/patch.diff ] || continue
  n=$(basename $m); case $n in C??_m*) p=${n%%_*}; n=${n#*_};; *) p=$pid;; esac
  cd $wt; git checkout -q -- . ; rm -rf tests
  export CARGO_TARGET_DIR=$wt/target
  mkdir -p tests; cp $m/demo.rs tests/demo.rs
  cargo test --offline --test demo >/tmp/sc.out 2>&1; a=$?
  rm -rf tests
  git apply $m/patch.diff || { echo "$m APPLY-FAILED"; continue; }
  cargo test --workspace --offline >/tmp/sc2.out 2>&1; b=$?
  mkdir -p tests; cp $m/demo.rs tests/demo.rs
  cargo test --offline --test demo >/tmp/sc3.out 2>&1; c=$?
  rm -rf tests; git checkout -q -- .
  echo "$p-$n clean-demo-rc=$a suite-with-patch-rc=$b demo-with-patch-rc=$c"
  if [ $a = 0 ] && [ $b = 0 ] && [ $c != 0 ]; then
    d=/verif/seeded/$p-$n; mkdir -p $d; cp $m/patch.diff $m/demo.rs $d/
    python3 - "$m/meta.json" "$d/meta.json" "$p" "$(git -C $wt rev-parse --short HEAD)" <<'PY'
import json,sys
src,dst,pid,head=sys.argv[1:5]
try: m=json.load(open(src))
except Exception as e: m={"note":"agent meta unreadable: %s"%e}
m["property"]=pid
m["confirmed_by_me"]={"how":"tools/import_seeds.sh in the agent's scratch worktree (at /repo commit %s): tests/demo.rs passes on the clean tree (rc 0); with patch.diff applied `cargo test --workspace --offline` passes (rc 0) and `cargo test --offline --test demo` fails"%head,"result":"confirmed"}
json.dump(m,open(dst,'w'),indent=1)
PY
  fi
done
