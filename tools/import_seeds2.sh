#!/bin/bash
# usage: tools/import_seeds2.sh <worktree> <outdir> <PROP>
# Confirms each change an independent sub-agent delivered (outdir/mN/{patch.diff,demo.rs,meta.json}) in the agent's scratch worktree:
# demo passes on the clean tree, the existing suite passes with the patch, the demo fails with the patch.  Confirmed ones are copied
# to /verif/seeded/<PROP>-m<next>.
wt=$1; out=$2; pid=$3
export CARGO_TARGET_DIR=$wt/target CARGO_NET_OFFLINE=true
cd $wt
for m in $out/m*/; do
  m=${m%/}; [ -f $m/patch.diff ] || continue
  n=$(basename $m)
  git checkout -q -- . ; rm -f tests/demo_*.rs examples/demo_*.rs
  cmd=$(python3 -c "import json;print(json.load(open('$m/meta.json')).get('demo_cmd',''))" 2>/dev/null)
  case "$cmd" in *--example*) kind=example; mkdir -p examples; f=examples/demo_$n.rs; run="cargo run --offline --example demo_$n";; *) kind=test; mkdir -p tests; f=tests/demo_$n.rs; run="cargo test --offline --test demo_$n";; esac
  cp $m/demo.rs $f
  $run > $out/$n.clean.log 2>&1; a=$?
  rm -f $f
  git apply $m/patch.diff || { echo "$pid $n APPLY-FAILED"; continue; }
  cargo test --workspace --offline > $out/$n.suite.log 2>&1; b=$?
  cp $m/demo.rs $f
  $run > $out/$n.patched.log 2>&1; c=$?
  rm -f $f; git checkout -q -- .
  echo "$pid $n ($kind) clean-demo-rc=$a suite-with-patch-rc=$b demo-with-patch-rc=$c"
  if [ $a = 0 ] && [ $b = 0 ] && [ $c != 0 ]; then
    k=1; while [ -d /verif/seeded/$pid-m$k ]; do k=$((k+1)); done
    d=/verif/seeded/$pid-m$k; mkdir -p $d; cp $m/patch.diff $m/demo.rs $d/
    python3 - "$m/meta.json" "$d/meta.json" "$pid" "$(git -C $wt rev-parse --short HEAD)" "$run" "$f" <<'PY'
import json,sys
src,dst,pid,head,run,f=sys.argv[1:7]
try: m=json.load(open(src))
except Exception as e: m={"note":"agent meta unreadable: %s"%e}
m["property"]=pid
m["confirmed_by_me"]={"how":"tools/import_seeds2.sh in the agent's scratch worktree (at /repo commit %s): demo.rs placed at %s, `%s` succeeds on the clean tree (rc 0); with patch.diff applied `cargo test --workspace --offline` passes (rc 0) and the demo command fails"%(head,f,run),"result":"confirmed"}
json.dump(m,open(dst,'w'),indent=1)
PY
    echo "  -> $d"
  fi
done
