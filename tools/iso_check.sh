#!/bin/bash
# usage: tools/iso_check.sh <patch.diff> <PROP> [PROP..]   -- run checks against a scratch copy of /repo with the patch applied (/repo untouched)
# VERIF_HOME selects the checkout of the machinery (default /verif); the scratch lives under /tmp/isoc.<pid> and is reused via ISO_DIR
H=${VERIF_HOME:-/verif}
patch=$1; shift
w=${ISO_DIR:-/tmp/isoc.$$}
mkdir -p $w/repo $w/out
rsync -a --delete --exclude target --exclude .git /repo/ $w/repo/
rsync -a --exclude target $H/replay/ $w/replay/
sed -i "s|path = \"/repo\"|path = \"$w/repo\"|" $w/replay/Cargo.toml
( cd $w/repo && patch -p1 -s < $patch ) || { echo "patch does not apply"; exit 3; }
for p in "$@"; do
  VERIF_REPO=$w/repo VERIF_OUT=$w/out VERIF_REPLAY_CRATE=$w/replay VERIF_EVIDENCE_DIR=$w/out/evidence $H/check $p quick 2>&1 | grep -v "^  (" | tail -${ISO_TAIL:-6} | cut -c1-300
  echo "rc=${PIPESTATUS[0]}"
done
[ -z "$ISO_DIR" ] && rm -rf $w
