#!/usr/bin/env python3
"""usage: tools/merge_matrix.py <seeded|benign> <partial.md>..   -- merge rows of partial matrices (tools/par_matrix.sh with a
regex) into <kind>/MATRIX.md: rows are keyed by the first column, later files win, rows are sorted naturally."""
import re, sys
kind = sys.argv[1]
main = "/verif/%s/MATRIX.md" % kind
head, rows = [], {}
def load(path, keep_head):
    for line in open(path):
        line = line.rstrip("\n")
        if not line.startswith("|"):
            continue
        cells = [c.strip() for c in line.strip("|").split("|")]
        if cells[0] in ("seeded change", "benign patch") or set(cells[0]) <= set("-"):
            if keep_head:
                head.append(line)
            continue
        rows[cells[0]] = line
load(main, True)
for p in sys.argv[2:]:
    load(p, False)
key = lambda n: [int(t) if t.isdigit() else t for t in re.split(r"(\d+)", n)]
with open(main, "w") as fh:
    fh.write("\n".join(head[:2] + [rows[k] for k in sorted(rows, key=key)]) + "\n")
print(kind, len(rows), "rows")
