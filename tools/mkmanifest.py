#!/usr/bin/env python3
"""Regenerate MANIFEST.json from vt/props.py (claimed checks) + vt/na.py (not applicable)."""
import json, os, sys, subprocess
ROOT = os.path.dirname(os.path.dirname(os.path.abspath(__file__)))
sys.path.insert(0, ROOT)
from vt.props import PROPS
from vt.na import NOT_APPLICABLE, PENDING

ids = [json.loads(l)["id"] for l in open(os.path.join(ROOT, "properties.jsonl"))]
hooks_commits = []
try:
    out = subprocess.check_output(["git", "-C", "/repo", "log", "--format=%h %s"], text=True)
    hooks_commits = [l.split()[0] for l in out.splitlines() if l.split(" ", 1)[1].startswith("verif-hook:")]
except Exception:
    pass
m = {
    "version": 1,
    "setup_cmd": "cd /verif && ./setup.sh",
    "hooks": {
        "guard": "simfony_verif",
        "enable": "RUSTFLAGS='--cfg simfony_verif' (replay driver and Kani harnesses only; the Verus checks read /repo/src directly)",
        "baseline_off_cmd": "cd /repo && cargo test --workspace --no-fail-fast --offline",
        "source_commits": hooks_commits,
        "add_only": True,
    },
    "engines": [
        {"name": "verus-extract", "path": "/verif/vt", "serves_properties": sorted(PROPS.keys()),
         "kind_free_text": "contract-based deductive verification: functions cut verbatim from /repo/src on every run, contracts spliced at syntactic anchors, discharged by Verus/Z3; replay driver linked to /repo searches a concrete failing input when an obligation fails"},
        {"name": "kani-harness", "path": "/verif/kani", "serves_properties": sorted(k for k, v in PROPS.items() if v.get("kani")),
         "kind_free_text": "Kani/CBMC harness on the public API of /repo: loop-free over the full finite domain (complete); discharges the contract the Verus unit assumes for TryFrom<&[u8]> for UIntValue; runs in both tiers"},
        {"name": "replay-driver + bounded searchers", "path": "/verif/replay", "serves_properties": sorted(k for k, v in PROPS.items() if v.get("searchers")),
         "kind_free_text": "bounded stand-ins, labelled bounded and never counted as proved: generators with an independent executable transcription of the specification drive the real crate (built from /repo with overflow checks and debug assertions on); they cover code outside the contracts and supply the failing input for failed obligations"},
    ],
    "checks": [],
    "not_applicable": [],
    "notes": "exit 0 = every obligation discharged; exit 1 = a named obligation failed (VIOLATION line; replay file carries the verifier output and, when found, a concrete failing input replayed on the real crate); exit 2 = undecided (lost anchor, unsupported construct, rlimit) - never an alarm. See DESIGN.md.",
}
for pid in ids:
    if pid in PROPS:
        p = PROPS[pid]
        m["checks"].append({
            "property_id": pid,
            "quick_cmd": "./check %s quick" % pid,
            "thorough_cmd": "./check %s thorough" % pid,
            "evidence_file": "/verif/evidence/%s.json" % pid,
            "replay_cmd_template": "./check --replay {path}",
            "engine": "verus-extract",
            "level_claimed": {"category": p.get("level", "proof"), "text": p["claim"], "design_ref": "DESIGN.md section 7, " + pid},
            "level_note": p["note"],
            "technique": p.get("technique", "contract-based deductive verification (Verus) of functions extracted verbatim from /repo on every run"
                               + ("; Kani harness (complete) for the one contract Verus cannot take" if p.get("kani") else "")
                               + "; bounded searchers on the real crate as labelled stand-in for the code outside the contracts"),
        })
    elif pid in NOT_APPLICABLE:
        m["not_applicable"].append({"property_id": pid, "reason": NOT_APPLICABLE[pid]})
    else:
        m["not_applicable"].append({"property_id": pid, "reason": PENDING.get(pid, "check not built yet; see DESIGN.md section 7")})
json.dump(m, open(os.path.join(ROOT, "MANIFEST.json"), "w"), indent=1)
print("claimed:", [c["property_id"] for c in m["checks"]])
