#!/bin/bash
# usage: tools/mut.sh <unit> <file-rel> <python-regex-old> <new>   -- verify a unit against a mutated scratch copy of /repo/src
set -e
M=/tmp/vmut.$$
mkdir -p $M; cp -r ${VERIF_SRC:-/repo}/src $M/src
python3 - "$M/$2" "$3" "$4" <<'PY'
import sys,re
p,old,new=sys.argv[1:4]
s=open(p).read()
assert old in s, "pattern not found"
s=s.replace(old,new,1)
open(p,'w').write(s)
PY
VERIF_REPO=$M ${VERIF_CHECK:-/verif/check} --unit $1 || true
rm -rf $M
