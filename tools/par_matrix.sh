#!/bin/bash
# usage: tools/par_matrix.sh <seeded|benign> [workers]
# Runs every patch of /verif/seeded (against the check of its own property) or /verif/benign (against ALL claimed checks) in
# parallel, each worker on its OWN scratch copy of /repo (under /tmp, removed afterwards) - /repo itself is never touched.
# The workers use exactly the registered ./check command with VERIF_REPO / VERIF_OUT / VERIF_REPLAY_CRATE pointing at the copy.
kind=$1; W=${2:-6}; only=${3:-.}      # optional 3rd argument: a regex selecting the patch directories (the matrix file then holds only those rows)
cd /verif
ids=$(python3 -c "import json;print(' '.join(c['property_id'] for c in json.load(open('MANIFEST.json'))['checks']))")
base=/tmp/iso.$$
mkdir -p $base
ls -d $kind/*/ | grep -v MATRIX | while read d; do [ -f $d/patch.diff ] && basename $d; done | grep -E "$only" > $base/todo
out_md=MATRIX.md; [ "$only" != "." ] && out_md=MATRIX.partial.md
worker() {
  k=$1; w=$base/w$k
  mkdir -p $w/repo $w/out
  rsync -a --exclude target --exclude .git /repo/ $w/repo/
  rsync -a --exclude target /verif/replay/ $w/replay/
  sed -i "s|path = \"/repo\"|path = \"$w/repo\"|" $w/replay/Cargo.toml
  [ -d /verif/out/replay-target ] && cp -r /verif/out/replay-target $w/out/replay-target
  [ -d /verif/out/kani-target ] && cp -r /verif/out/kani-target $w/out/kani-target
  while true; do
    m=$( flock $base/lock -c "head -1 $base/todo; sed -i 1d $base/todo" )
    [ -z "$m" ] && break
    rsync -a --delete /repo/src/ $w/repo/src/
    ( cd $w/repo && patch -p1 -s < /verif/$kind/$m/patch.diff ) || { echo "$m|patch does not apply" >> $base/results; continue; }
    if [ $kind = seeded ]; then props=${m%%-*}; else props=$ids; fi
    line=""
    for p in $props; do
      res=$(VERIF_NO_CANARY=1 VERIF_REPO=$w/repo VERIF_OUT=$w/out VERIF_REPLAY_CRATE=$w/replay VERIF_EVIDENCE_DIR=$w/out/evidence ./check $p quick 2>&1); rc=$?
      obs=$(echo "$res" | grep "^failed obligation:" | sed 's/^failed obligation: //' | cut -c1-90 | sort -u | head -8 | tr '\n' ';' | sed 's/|/\\|/g')
      und=$(echo "$res" | grep "^UNDECIDED:" | cut -c1-140 | head -2 | tr '\n' ';' | sed 's/|/\\|/g')
      echo "$m|$p|$rc|$obs|$und" >> $base/results
      line="$line $p=$rc"
    done
    echo "$m:$line"
  done
  rm -rf $w
}
touch $base/lock $base/results
for k in $(seq 1 $W); do worker $k & done
wait
sort $base/results > $kind/MATRIX.raw
python3 - $kind $out_md <<'PY'
import sys,collections
kind=sys.argv[1]
rows=[l.rstrip('\n').split('|',4) for l in open('/verif/%s/MATRIX.raw'%kind)]
out=open('/verif/%s/%s'%(kind,sys.argv[2]),'w')
if kind=='seeded':
    out.write("| seeded change | check | exit | reported obligations |\n|---|---|---|---|\n")
    for r in rows:
        r += ['']*(5-len(r))
        out.write("| %s | %s | %s | %s |\n" % (r[0], r[1], r[2], r[3] or r[4]))
else:
    out.write("| benign patch | exit codes per check (0 = pass, 2 = undecided, 1 = FALSE ALARM) |\n|---|---|\n")
    by=collections.OrderedDict()
    for r in rows: by.setdefault(r[0],[]).append("%s=%s"%(r[1],r[2]) if len(r)>2 else r[1])
    for m,v in by.items(): out.write("| %s | %s |\n" % (m, " ".join(v)))
PY
rm -f $kind/MATRIX.raw
rm -rf $base
echo "wrote $kind/$out_md"
