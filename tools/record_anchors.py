#!/usr/bin/env python3
"""Records the loop headers the contracts were written against (contracts/anchors.json).  Run on the tree the contracts verify on:
   VERIF_RECORD_ANCHORS=1 python3 tools/record_anchors.py"""
import os, sys, json, glob
os.environ["VERIF_RECORD_ANCHORS"] = "1"
ROOT = os.path.dirname(os.path.dirname(os.path.abspath(__file__)))
sys.path.insert(0, ROOT)
from vt import gen
for f in sorted(glob.glob(os.path.join(ROOT, "contracts", "*.vc"))):
    gen.generate(os.path.basename(f)[:-3])
json.dump(dict(sorted(gen.RECORD.items())), open(os.path.join(ROOT, "contracts", "anchors.json"), "w"), indent=1)
print(len(gen.RECORD), "loop anchors recorded")
