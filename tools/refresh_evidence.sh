#!/bin/bash
# Re-run every claimed check on the clean /repo tree so that the committed evidence files come from the unchanged tree.
cd /verif
[ -z "$(git -C /repo status --porcelain -- src)" ] || { echo "/repo/src is modified - refusing"; exit 1; }
tier=${1:-quick}
for p in $(python3 -c "import json;print(' '.join(c['property_id'] for c in json.load(open('MANIFEST.json'))['checks']))"); do
  ./check $p $tier | tail -1
done
python3-vt - <<'PY'
import json,jsonschema,glob
sch=json.load(open('/root/.vp/EVIDENCE.schema.json'))
for f in sorted(glob.glob('/verif/evidence/*.json')):
    jsonschema.validate(json.load(open(f)), sch)
jsonschema.validate(json.load(open('/verif/MANIFEST.json')), json.load(open('/root/.vp/MANIFEST.schema.json')))
print("evidence + manifest valid")
PY
