#!/bin/bash
# usage: tools/run_seeds.sh <dir-with-mN-subdirs> <prop> [<prop>...]  -- apply each patch to /repo, run the checks, undo
d=$1; shift
for m in $d/m*; do
  [ -f $m/patch.diff ] || continue
  git -C /repo checkout -q -- . 
  if ! git -C /repo apply $m/patch.diff 2>/dev/null; then echo "$m: patch does not apply to /repo HEAD"; continue; fi
  for p in "$@"; do
    out=$(cd /verif && ./check $p quick 2>&1); rc=$?
    echo "== $m $p rc=$rc"; echo "$out" | grep -E "VIOLATION|UNDECIDED|failed obligation|failing input" | cut -c1-260 | head -8
  done
  git -C /repo checkout -q -- .
done
