#!/bin/bash
# usage: tools/seed.sh <seed-id> [<prop>...]   e.g. tools/seed.sh C09-m1 C09   (default prop = prefix of the id)
m=$1; shift; props="$@"; [ -z "$props" ] && props=${m%%-*}
git -C /repo checkout -q -- .
git -C /repo apply /verif/seeded/$m/patch.diff || { echo "$m: patch does not apply"; exit 3; }
for p in $props; do (cd /verif && VERIF_EVIDENCE_DIR=/verif/out/evidence-seed ./check $p ${TIER:-quick} 2>&1 | grep -E "VIOLATION|UNDECIDED|PASS|KNOWN" | cut -c1-200 | sed "s/^/$m $p: /"); done
git -C /repo checkout -q -- .
