#!/bin/bash
# Run every seeded change against the check of its property (quick tier) and write seeded/MATRIX.md
cd /verif
out=seeded/MATRIX.md
echo "| seeded change | check | exit | reported obligations |" > $out
echo "|---|---|---|---|" >> $out
for d in seeded/*/; do
  m=$(basename $d); p=${m%%-*}
  [ -f $d/patch.diff ] || continue
  git -C /repo checkout -q -- .
  git -C /repo apply /verif/$d/patch.diff || { echo "| $m | $p | patch does not apply | |" >> $out; continue; }
  res=$(VERIF_EVIDENCE_DIR=/verif/out/evidence-seed ./check $p quick 2>&1); rc=$?
  obs=$(echo "$res" | grep "^failed obligation:" | sed 's/^failed obligation: //' | cut -c1-110 | sort -u | head -3 | tr '\n' ';' | sed 's/|/\\|/g')
  echo "| $m | $p | $rc | $obs |" >> $out
  git -C /repo checkout -q -- .
  echo "$m rc=$rc"
done
