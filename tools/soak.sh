#!/bin/bash
# usage: tools/soak.sh <nseeds> [tier]  -- run every claimed check on the unchanged tree for seeds 1..n; print anything that is not PASS
n=${1:-5}; tier=${2:-quick}
cd "$(dirname "$0")/.."
export VERIF_EVIDENCE_DIR=$PWD/out/evidence-soak
ids=$(python3 -c "import json;print(' '.join(c['property_id'] for c in json.load(open('MANIFEST.json'))['checks']))")
bad=0
for s in $(seq 1 $n); do
  for p in $ids; do
    out=$(VERIF_SEED=$s ./check $p $tier 2>&1); rc=$?
    if [ $rc != 0 ]; then bad=$((bad+1)); echo "seed=$s $p rc=$rc"; echo "$out" | head -6 | cut -c1-400; fi
  done
done
echo "soak done: $n seeds, non-pass runs: $bad"
