import sys, os, json, re, time, hashlib
from concurrent.futures import ThreadPoolExecutor
from . import runner, gen, replay as rp
from .props import PROPS

ROOT = gen.ROOT
EVID = os.environ.get("VERIF_EVIDENCE_DIR") or os.path.join(ROOT, "evidence")
OUT = os.environ.get("VERIF_OUT") or os.path.join(ROOT, "out")


def scan_assumptions(text):
    """Mechanical scan of a generated unit for everything that is assumed rather than proved."""
    out = []
    for m in re.finditer(r"assume_specification\s*(?:<[^>]*>)?\s*\[\s*([^\]]+?)\s*\]", text):
        out.append("assume_specification: " + re.sub(r"\s+", " ", m.group(1)))
    for m in re.finditer(r"#\[verifier::external_body\]\s*(?:#\[[^\]]*\]\s*)*(?:pub\s+)?(?:broadcast\s+)?(?:proof\s+)?(fn|struct)\s+([A-Za-z0-9_]+)", text):
        out.append("external_body %s %s" % (m.group(1), m.group(2)))
    for m in re.finditer(r"uninterp\s+spec\s+fn\s+([A-Za-z0-9_]+)", text):
        out.append("uninterpreted spec fn " + m.group(1))
    for m in re.finditer(r"\b(assume|admit)\s*\(", text):
        # position -> must not occur at all in contracts/speclib
        out.append("FORBIDDEN %s( at offset %d" % (m.group(1), m.start()))
    for m in re.finditer(r"external_type_specification", text):
        out.append("external_type_specification")
    return sorted(set(out))


def load_known():
    p = os.path.join(ROOT, "known_findings.json")
    if not os.path.exists(p):
        return []
    return json.load(open(p)).get("findings", [])


POW2_HELPER = re.compile(r"^[A-Za-z_0-9]+/((?:NonZero)?Pow2Usize)(?: \(checked_num!\))?::(\w+)")


def compute_reach(prop, results):
    """Extracted functions the property depends on: those matching the property's `roots` and everything they call,
    transitively, inside the same unit (by name: an over-approximation).  None when the property declares no roots."""
    roots = PROPS[prop].get("roots")
    if not roots:
        return None
    from . import rustlex as rl
    reach = set()
    for r in results:
        ex = r.extractor
        if not ex:
            continue
        fns = [f for f in ex.functions if f.get("name")]
        idents = {}
        for f in fns:
            try:
                src = open(os.path.join(gen.REPO, f["file"])).read()[f["byte_range"][0]:f["byte_range"][1]]
                idents[f["label"]] = set(t.text for t in rl.code_tokens(rl.tokenize(src)) if t.kind == "ident")
            except Exception:
                idents[f["label"]] = None       # unknown: depends on everything
        work = [f["label"] for f in fns if any(re.search(p, f["label"]) for p in roots)]
        seen = set(work)
        while work:
            lab = work.pop()
            ids = idents.get(lab)
            for g in fns:
                if g["label"] not in seen and (ids is None or g["name"] in ids):
                    seen.add(g["label"]); work.append(g["label"])
        for lab in seen:
            reach.add((r.unit, lab))
    return reach


def is_extracted(results, unit, label):
    for r in results:
        if r.unit == unit and r.extractor:
            return any(f["label"] == label for f in r.extractor.functions)
    return False


def in_scope(prop, failure, reach=None, results=()):
    kinds = PROPS[prop].get("kinds")
    if kinds and not any(failure.get("kind", "").startswith(k) for k in kinds):
        return False
    scope = PROPS[prop].get("scope")
    ob = failure.get("obligation") or ""
    # The power-of-two newtypes of num.rs are included in most units (callers are checked against their contracts).
    # A failure inside one of them belongs to a property only if the code the property is about calls that function.
    m = POW2_HELPER.match(ob)
    if m:
        return "%s::%s" % (m.group(1), m.group(2)) in PROPS[prop].get("pow2", ())
    # a failure inside an extracted function belongs to the property only if the property's root functions reach that function
    unit = failure.get("unit") or ob.split("/")[0]
    fn = failure.get("function") or ""
    if reach is not None and is_extracted(results, unit, fn):
        return (unit, fn) in reach
    if not scope:
        return True
    for pat in scope:
        if re.search(pat, ob.split(": ")[0]):
            return True
    return False


def write_evidence(prop, tier, seed, results, kani_results, violations, known_hits, wall, extra_notes, bounded=(), reach=None):
    spec = PROPS[prop]
    obligations = sum(r.obligations() for r in results)
    discharged = sum(r.discharged() for r in results)
    functions = []
    rules = {}
    dropped = []
    assumptions = set(spec.get("assumptions", []))
    samples = []
    per_fn = []
    cmds = []
    for r in results:
        if r.extractor:
            for f in r.extractor.functions:
                functions.append("%s:%s [%s bytes %d..%d sha256 %s]" % (r.unit, f["label"], f["file"], f["byte_range"][0], f["byte_range"][1], f["sha256"]))
            for k, v in r.extractor.rule_counts.items():
                rules[r.unit + ":" + k] = v
            dropped.extend(r.extractor.dropped)
            for a in r.extractor.assumed:
                assumptions.add("%s: %s" % (r.unit, a))
        if r.path and os.path.exists(r.path):
            for a in scan_assumptions(open(r.path).read()):
                assumptions.add("%s: %s" % (r.unit, a))
        for f in r.functions:
            per_fn.append({"unit": r.unit, "function": f["function"], "mode": f["mode"], "smt_us": f["smt_us"], "rlimit": f["rlimit"], "discharged": f["success"]})
        cmds.append(r.cmd)
    per_fn.sort(key=lambda x: -x["smt_us"])
    for f in per_fn[:8]:
        samples.append("%s::%s (%s) discharged=%s smt=%dus rlimit=%d" % (f["unit"], f["function"], f["mode"], f["discharged"], f["smt_us"], f["rlimit"]))
    cov = {
        "obligations": obligations + sum(k.get("checks", 0) for k in kani_results),
        "discharged": discharged + sum(k.get("checks_ok", 0) for k in kani_results),
        "checker_cmd": " ; ".join(cmds + [k["cmd"] for k in kani_results]) or "none",
        "trusted_base": sorted(assumptions),
        "samples": samples or ["(no obligations generated)"],
        "backend": "Verus 0.2026.09.13 -> Z3 (bundled)" + ("; Kani 0.68 -> CBMC 6.11" if kani_results else ""),
        "verus_function_vcs": obligations,
        "verus_function_vcs_discharged": discharged,
        "functions_under_contract": functions,
        "per_function": per_fn,
        "smt_ms_total": sum(r.smt_ms for r in results),
        "normalisation_rules_applied": rules,
        "extraction_dropped": sorted(set(dropped)),
        "units": [{"unit": r.unit, "status": r.status, "verified": r.verified, "errors": r.errors, "smt_ms": r.smt_ms,
                   "wall_s": round(r.wall_s, 2), "canary": r.canary, "problems": r.problems[:5]} for r in results],
        "kani": kani_results,
        "bounded_stand_ins": [k for k in kani_results if k.get("bounded")] + [
            {"searcher": b["searcher"], "label": "bounded (not a proof)", "bound": b["bound"], "cases_run_on_real_crate": b["cases"],
             "wall_s": b["wall_s"], "failing_input_found": bool(b.get("witness"))} for b in bounded],
        "not_covered": spec.get("not_covered", []),
        # functions of /repo this property depends on (its roots and what they call inside the units); a failed obligation or a
        # degraded function outside this cone is reported as a note only
        "dependency_cone": sorted("%s:%s" % x for x in reach) if reach is not None else "all extracted functions of the units",
        # functions whose annotated body could not be generated or type-checked on this tree: contract assumed, body NOT verified
        "degraded_functions": ["%s:%s (%s)" % (r.unit, lab, reason) for r in results for lab, reason in r.degraded],
        "known_findings_hit": known_hits,
        "failed_obligations": [v["obligation"] for v in violations],
        "notes": extra_notes,
    }
    if spec.get("level") == "exploration":
        # the deciding evidence of this check is the bounded search on the real crate (labelled bounded, not a proof)
        cov["evaluations"] = sum(b.get("cases", 0) for b in bounded)
        cov["distinct_nontrivial"] = sum(b.get("distinct_nontrivial", 0) for b in bounded)
        cov["rule"] = ("cases are generated by the searchers named in bounded_stand_ins (bound stated there) from VERIF_SEED; a case is a distinct request "
                       "to the replay driver (distinct text); it is non-trivial when the real crate answers with something other than plain acceptance "
                       "(a rendered error message here), counted by the driver wrapper")
        cov["samples"] = [s for b in bounded for s in b.get("samples", [])][:5] or cov["samples"]
        cov["exhaustive"] = False
    ev = {
        "property_id": prop,
        "tier": tier,
        "seed": seed,
        "level": spec.get("level", "proof"),
        "coverage": cov,
        "assumptions": sorted(assumptions),
        "wall_s": round(wall, 2),
        "violations": len(violations),
    }
    os.makedirs(EVID, exist_ok=True)
    with open(os.path.join(EVID, prop + ".json"), "w") as fh:
        json.dump(ev, fh, indent=1)


def run_property(prop, tier, seed):
    t0 = time.time()
    spec = PROPS[prop]
    units = spec["units"]
    canary = ((tier == "thorough") or spec.get("canary_quick", True)) and os.environ.get("VERIF_NO_CANARY") != "1"      # tools/par_matrix.sh skips the vacuity canaries
    kani_results = []
    with ThreadPoolExecutor(max_workers=min(16, max(1, len(units))) + 1) as ex:
        kfut = None
        if spec.get("kani") and (tier == "thorough" or spec.get("kani_quick") or os.environ.get("VERIF_KANI") == "1"):
            from . import kani
            kfut = ex.submit(kani.run_harnesses, prop, spec["kani"], tier)      # concurrently with the Verus units
        results = list(ex.map(lambda u: runner.run_unit(u, canary=canary, outdir=os.path.join(OUT, "units-" + prop)), units))
        if kfut is not None:
            kani_results = kfut.result()
    notes = []
    undecided = []
    violations = []
    reach = compute_reach(prop, results)
    for r in results:
        if r.status == "undecided" or r.status == "error":
            undecided.extend("%s: %s" % (r.unit, p) for p in r.problems)
        for f in r.failures:
            if in_scope(prop, dict(f, unit=r.unit), reach, results):
                violations.append(dict(f, unit=r.unit))
            else:
                notes.append("out-of-scope failure (belongs to another property): " + f["obligation"])
        for lab, reason in r.degraded:
            d = {"obligation": "%s/%s/degraded" % (r.unit, lab), "function": lab, "unit": r.unit, "kind": (PROPS[prop].get("kinds") or ("degraded",))[0]}
            if in_scope(prop, d, reach, results):
                undecided.append("%s: %s is not verified (contract assumed, body skipped): %s" % (r.unit, lab, reason))
            else:
                notes.append("function outside this property's dependency cone not verified: %s/%s (%s)" % (r.unit, lab, reason))
    for k in kani_results:
        if k["status"] == "fail":
            violations.append({"obligation": "kani/%s" % k["harness"], "kind": "kani", "function": k["harness"],
                               "message": k.get("summary", ""), "rendered": k.get("tail", ""), "unit": "kani",
                               "witness": k.get("witness")})
        elif k["status"] != "pass":
            undecided.append("kani %s: %s" % (k["harness"], k.get("summary", "")))
    # bounded stand-ins: searchers that exercise the real crate (functions not under contract, and a fallback when
    # extraction/verification of a unit is undecided); labelled bounded, never counted as proved
    bounded = []
    names = list(spec.get("searchers", []))
    if names and os.environ.get("VERIF_NO_BOUNDED") != "1":
        budget = int(os.environ.get("VERIF_BOUNDED_BUDGET", "2000" if tier == "thorough" else "400"))
        os.environ["VERIF_TIER"] = tier
        bounded, berr = rp.run_bounded(names, seed, budget)
        if tier == "thorough" and not berr and not any(b.get("witness") for b in bounded):
            # thorough: four more generator seeds derived from VERIF_SEED
            for extra in range(1, 5):
                more, berr2 = rp.run_bounded(names, seed + 1000 * extra, budget)
                for b, m in zip(bounded, more):
                    b["cases"] += m["cases"]; b["distinct"] = b.get("distinct", 0) + m.get("distinct", 0)
                    b["distinct_nontrivial"] = b.get("distinct_nontrivial", 0) + m.get("distinct_nontrivial", 0)
                    b["wall_s"] = round(b["wall_s"] + m["wall_s"], 2)
                    if m.get("witness") and not b.get("witness"):
                        b["witness"] = m["witness"]
                if any(m.get("witness") for m in more):
                    break
        if berr:
            undecided.append("bounded stand-ins not run: " + berr[-600:])
        for b in bounded:
            if b.get("witness"):
                violations.append({"obligation": "bounded/%s: real code disagrees with the executable specification" % b["searcher"],
                                   "kind": "bounded-replay", "function": b["searcher"], "message": "bounded search found a failing input",
                                   "rendered": "", "unit": "bounded", "witness": b["witness"]})
            if b.get("error"):
                notes.append("searcher %s raised %s (ignored)" % (b["searcher"], b["error"]))
    known = [k for k in load_known() if k.get("property") == prop and k.get("status") == "known"]
    known_hits = []
    rc = 0
    os.makedirs(os.path.join(OUT, "replay"), exist_ok=True)
    reported = []
    for i, v in enumerate(violations):
        # witness search on the real code
        w = v.get("witness")
        note = ""
        if w is None and v.get("kind") not in ("kani", "bounded-replay"):
            w, note = rp.find_witness(v["obligation"], seed)
        v["witness"] = w
        v["witness_note"] = note
        # A `debug_assert!` of the SOURCE that Verus cannot discharge is a question about panics (C06's), not about the functional
        # obligations of this property: without a failing input from the bounded search (the driver runs the real crate with debug
        # assertions ON) it is reported as undecided, not as a violation.  Properties that are about panics (`kinds`) keep it.
        if w is None and v.get("kind") == "debug_assert" and not PROPS[prop].get("kinds"):
            undecided.append("source assertion not discharged, no failing input found (%s): %s" % (note or "bounded search", v["obligation"]))
            continue
        # known finding?
        hit = None
        for k in known:
            if v["obligation"].startswith(k["obligation_prefix"]) and (k.get("input") is None or (w and w.get("input") == k.get("input"))):
                hit = k
                break
        if hit:
            print("KNOWN-FINDING: property=%s %s" % (prop, hit["what"]))
            known_hits.append(hit["what"])
            continue
        path = os.path.join(OUT, "replay", "%s-%d.json" % (prop, i))
        with open(path, "w") as fh:
            json.dump({"property": prop, "obligation": v["obligation"], "kind": v["kind"], "verifier_message": v["message"],
                       "verifier_output": v.get("rendered", ""), "witness": w, "witness_note": note,
                       "replay_cmd": "./check --replay %s" % path}, fh, indent=1)
        print("failed obligation: %s" % v["obligation"])
        if w:
            print("  failing input on the real code: %r  expected %s  observed %s" % (w.get("input"), w.get("expected"), w.get("observed")))
            print("VIOLATION property=%s replay=%s" % (prop, path))
        else:
            print("  (%s)" % note)
            print("VIOLATION property=%s replay=%s no-failing-input-found" % (prop, path))
        reported.append(v)
        rc = 1
    # a structural problem in a unit is 'undecided' (exit 2) unless a bounded stand-in found a real failing input (exit 1)
    if undecided and rc == 0:
        for u in undecided:
            print("UNDECIDED: " + u)
        rc = 2
    wall = time.time() - t0
    write_evidence(prop, tier, seed, results, kani_results, reported, known_hits, wall, notes + undecided, bounded, reach)
    tot = sum(r.obligations() for r in results); dis = sum(r.discharged() for r in results)
    print("%s %s: units=%s verus function-VCs %d/%d discharged, smt %d ms, kani harnesses %d, wall %.1fs -> %s" % (
        prop, tier, ",".join(units), dis, tot, sum(r.smt_ms for r in results), len(kani_results), wall,
        {0: "PASS", 1: "VIOLATION", 2: "UNDECIDED"}[rc]))
    return rc


def do_replay(path):
    d = json.load(open(path))
    print("obligation:", d["obligation"])
    print(d.get("verifier_output", ""))
    w = d.get("witness")
    if not w:
        print("no concrete failing input was found (%s); the violation is the failed obligation above" % d.get("witness_note"))
        return 1
    drv = rp.Driver()
    if not drv.build():
        print(drv.build_log); return 2
    op = w.get("op")
    if op:
        got = drv.call(*op)
        drv.close()
        print("input %r: expected %s, real code returns %s" % (w["input"], w["expected"], got))
        return 1 if got.split(" ")[0] != w["expected"].split(" ")[0] or got != w["expected"] and w["expected"].startswith("ok") else 0
    print("witness:", json.dumps(w))
    return 1


def main(argv):
    if argv and argv[0] == "--unit":
        r = runner.run_unit(argv[1], canary="--canary" in argv)
        print("unit", r.unit, "status", r.status, "verified", r.verified, "errors", r.errors, "smt_ms", r.smt_ms, "wall %.1fs" % r.wall_s)
        for f in r.failures:
            print("  FAIL", f["obligation"])
            if "-v" in argv: print(f["rendered"])
        for p in r.problems:
            print("  PROBLEM", p)
        for lab, reason in r.degraded:
            print("  DEGRADED %s: %s" % (lab, reason))
        if r.canary: print("  canary", r.canary)
        if r.extractor: print("  rules", r.extractor.rule_counts)
        return {"pass": 0, "fail": 1}.get(r.status, 2)
    if argv and argv[0] == "--replay":
        return do_replay(argv[1])
    if len(argv) >= 1 and argv[0] in PROPS:
        tier = argv[1] if len(argv) > 1 else os.environ.get("VERIF_TIER", "quick")
        seed = int(os.environ.get("VERIF_SEED", "0") or 0)
        return run_property(argv[0], tier, seed)
    print("usage: check <ID> <quick|thorough> | --unit NAME [--canary] [-v] | --replay FILE")
    return 2
