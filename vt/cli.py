import sys, json
from . import runner

def main(argv):
    if argv and argv[0] == "--unit":
        r = runner.run_unit(argv[1], canary="--canary" in argv)
        print("unit", r.unit, "status", r.status, "verified", r.verified, "errors", r.errors, "smt_ms", r.smt_ms, "wall %.1fs" % r.wall_s)
        for f in r.failures:
            print("  FAIL", f["obligation"])
            if "-v" in argv: print(f["rendered"])
        for p in r.problems:
            print("  PROBLEM", p)
        if r.canary: print("  canary", r.canary)
        if r.extractor: print("  rules", r.extractor.rule_counts)
        return {"pass": 0, "fail": 1}.get(r.status, 2)
    print("usage: check <ID> <quick|thorough> | --unit NAME")
    return 2
