"""Template expander: cuts items verbatim out of /repo/src, applies the generic
normalisation rules, splices contract clauses at syntactic anchors and emits a
single Verus file together with a piece map (which output character came from
where).  See DESIGN.md section 2.

Template language (contracts/<unit>.vc).  A line whose first non-blank
character is '@' is a directive; every other line is payload of the directive
before it (or free Verus text when outside an @extract block).

  @unit NAME
  @include REL/PATH                      paste /verif/REL/PATH (prelude, speclib)
  @extract FILE :: SEL :: SEL ...        cut that item out of /repo/FILE
    @only fn a, fn b                     (impl items) keep only these members      [R0]
    @fn NAME                             following anchors refer to member / nested fn NAME
    @label TEXT                          name used in obligation ids
    @ret NAME                            `-> T` becomes `-> (NAME: T)`
    @implitems / payload                 (impl items) ghost items inserted at the start of the impl block
    @header / payload                    clauses inserted between signature and body
    @assume-body REASON                  mark the fn external_body: contract assumed, body unverified (listed as assumption)
    @loop ORD / payload                  clauses inserted between loop head and loop body
    @before "PREFIX" [#K] / payload      insert before K-th statement starting with PREFIX
    @after "PREFIX" [#K] / payload       insert after that (';'-terminated) statement
    @closurespec "PREFIX" / payload      requires/ensures of the closure in the statement starting with PREFIX
    @bodystart / payload                 insert right after the opening brace of the fn body
    @atend / payload                     insert just before the closing brace of the fn body
    @beforeloop|@afterloop|@loopstart|@loopend ORD / payload   around / inside the ORD-th loop
    @rule R1 loop ORD iter NAME          for-desugaring over an external iterator (@loopinit ORD payload goes between `let mut NAME = ..;` and `loop`)
    @rule R2                             `.map(Self)`/`.map(Ctor)` eta-expansion (payload: closure text per match)
    @rule R2c / payload `|x| body := |x: T| -> (r: U) ensures .. { body }`   closure annotation (body kept verbatim)
    @rule R3 loop ORD index NAME         iter_mut loop -> index loop
    @rule R10 [NAME]                     `mut self` parameter -> `let mut NAME = self;` + renaming in the body
    @rule pub                            item made pub                                 [R0]
    @rule R17 NAME / payload             tail expression E -> `let NAME = E; <payload> NAME`
    @rule R14 NAME                       NAME.len() on a &str -> str_len(NAME) (assumed wrapper)
    @rule R12                            debug_assert_eq!(a, b) -> debug_assert!((a) == (b))
    @rule R15                            assert!(c, "msg", ..) -> rt_assert(c)  (assumed wrapper: panics when c is false)
    @rule ascribe "let x" "T"            type ascription added to a let                [R11]
    @rule pubfields                      struct fields made pub                      [R0]
    @rule macro-inst MACRO $v=Value      instantiate a macro_rules body like the invocation MACRO!(Value, ..) does [R9]
    @rule sub "A" => "B" [#K]            labelled literal substitution (counted, reported)
  @end
"""
import os, re, hashlib
from . import rustlex as rl

REPO = os.environ.get("VERIF_REPO", "/repo")
RECORD = {} if os.environ.get("VERIF_RECORD_ANCHORS") == "1" else None     # tools/record_anchors.py
try:
    import json as _json
    ANCHORS = _json.load(open(os.path.join(os.path.dirname(os.path.dirname(os.path.abspath(__file__))), "contracts", "anchors.json")))
except Exception:
    ANCHORS = {}
ROOT = os.path.dirname(os.path.dirname(os.path.abspath(__file__)))

class GenError(Exception):
    """Structural problem: lost anchor, rule not matching ... => exit 2, never an alarm."""

class Piece:
    __slots__ = ("text", "tag")
    def __init__(self, text, tag):
        self.text, self.tag = text, tag

# ---------------------------------------------------------------- template parsing
class Directive:
    def __init__(self, name, arg, line):
        self.name, self.arg, self.line, self.payload = name, arg, line, []
    def text(self):
        return "\n".join(self.payload)

def parse_template(path):
    nodes = []   # ("free", text, line) | ("include", path) | ("extract", Directive, [Directive])
    cur_extract = None
    cur_dir = None
    free = []
    free_line = 1
    with open(path) as fh:
        lines = fh.read().split("\n")
    for ln, line in enumerate(lines, 1):
        s = line.strip()
        if s.startswith("@"):
            m = re.match(r"@([A-Za-z0-9_-]+)\s*(.*)$", s)
            name, arg = m.group(1), m.group(2).strip()
            if cur_extract is None:
                if free:
                    nodes.append(("free", "\n".join(free) + "\n", free_line)); free = []
                if name == "unit":
                    nodes.append(("unit", arg))
                elif name == "include":
                    nodes.append(("include", arg))
                elif name == "autouse":
                    nodes.append(("autouse", arg))
                elif name == "extract":
                    cur_extract = (Directive("extract", arg, ln), [])
                    cur_dir = None
                else:
                    raise GenError("%s:%d: directive @%s outside @extract" % (path, ln, name))
                free_line = ln + 1
            else:
                if name == "end":
                    nodes.append(("extract", cur_extract[0], cur_extract[1]))
                    cur_extract = None; cur_dir = None
                    free_line = ln + 1
                else:
                    cur_dir = Directive(name, arg, ln)
                    cur_extract[1].append(cur_dir)
        else:
            if cur_extract is None:
                free.append(line)
            elif cur_dir is not None:
                cur_dir.payload.append(line)
            elif s:
                raise GenError("%s:%d: payload without directive" % (path, ln))
    if cur_extract is not None:
        raise GenError("%s: unterminated @extract" % path)
    if free:
        nodes.append(("free", "\n".join(free) + "\n", free_line))
    return nodes

# ---------------------------------------------------------------- function anatomy
class FnInfo:
    """Positions (absolute offsets in src) of the parts of a fn item."""
    def __init__(self, src, item):
        self.item = item
        toks = rl.code_tokens(rl.tokenize(src[item.start:item.end]))
        for t in toks:
            t.start += item.start; t.end += item.start
        self.toks = toks
        br = rl.match_brackets(toks)
        self.br = br
        # find 'fn' token
        k = 0
        while toks[k].text != "fn":
            k += 1
        self.fn_kw = k
        self.name = toks[k + 1].text
        j = k + 2
        if toks[j].text == "<":
            # generics: scan to matching '>' (no '>>' inside fn generics in this crate expected, handle anyway)
            depth = 0
            while True:
                tx = toks[j].text
                if tx == "<": depth += 1
                elif tx == ">": depth -= 1
                elif tx == ">>": depth -= 2
                elif tx == "->" : pass
                j += 1
                if depth <= 0: break
        assert toks[j].text == "(", (self.name, toks[j])
        self.params_open = j
        self.params_close = br[j]
        j = br[j] + 1
        self.ret_start = self.ret_end = None
        body_idx = None
        if toks[j].text == "->":
            self.ret_start = toks[j + 1].start
            j += 1
            # return type runs to 'where' or '{' at depth 0
            depth = 0
            while True:
                t = toks[j]
                if t.kind == "punct" and t.text in ("(", "["):
                    j = br[j] + 1; continue
                if t.text == "<": depth += 1
                elif t.text == ">": depth -= 1
                elif t.text == ">>": depth -= 2
                if depth == 0 and ((t.kind == "ident" and t.text == "where") or t.text == "{" or t.text == ";"):
                    break
                j += 1
            self.ret_end = toks[j - 1].end
        # where clause
        while toks[j].text not in ("{", ";"):
            if toks[j].kind == "punct" and toks[j].text in ("(", "["):
                j = br[j] + 1
            else:
                j += 1
        if toks[j].text == "{":
            self.body_open_idx = j
            self.body_close_idx = br[j]
            self.body_open = toks[j].start
            self.body_close = toks[br[j]].start
        else:
            self.body_open_idx = None
            self.body_open = self.body_close = None
        self.sig_end = toks[j].start  # position of '{'

    def loops(self, src, exclude):
        """Loops in the body in pre-order with hierarchical ordinals.
        exclude: list of (lo,hi) ranges (nested items) to ignore."""
        toks, br = self.toks, self.br
        found = []
        j = self.body_open_idx + 1
        end = self.body_close_idx
        for k in range(j, end):
            t = toks[k]
            if t.kind == "ident" and t.text in ("for", "while", "loop"):
                if any(lo <= t.start < hi for lo, hi in exclude):
                    continue
                if t.text == "for" and toks[k + 1].text == "<":
                    continue
                # body '{' : first '{' at depth 0 after kw
                m = k + 1
                while True:
                    tm = toks[m]
                    if tm.kind == "punct" and tm.text in ("(", "["):
                        m = br[m] + 1; continue
                    if tm.text == "{":
                        break
                    m += 1
                found.append({"kw": t.text, "kw_idx": k, "kw_pos": t.start, "open_idx": m,
                              "open": toks[m].start, "close": toks[br[m]].start, "close_idx": br[m]})
        # ordinals
        stack = []
        counters = {(): 0}
        for lp in found:
            while stack and not (stack[-1]["open"] < lp["kw_pos"] < stack[-1]["close"]):
                stack.pop()
            parent = tuple(stack[-1]["ord"]) if stack else ()
            counters[parent] = counters.get(parent, 0) + 1
            lp["ord"] = list(parent) + [counters[parent]]
            lp["ordstr"] = ".".join(str(x) for x in lp["ord"])
            stack.append(lp)
        return found

    def stmt_starts(self, exclude):
        """Offsets in the body where a statement may start (after ';', '{', '}' or '=>'),
        at any depth, outside excluded ranges."""
        res = []
        toks = self.toks
        for k in range(self.body_open_idx, self.body_close_idx):
            t = toks[k]
            if t.kind == "punct" and t.text in (";", "{", "}", "=>", ","):
                nxt = toks[k + 1]
                if any(lo <= nxt.start < hi for lo, hi in exclude):
                    continue
                res.append((k + 1, nxt.start))
        return res

    def enclosing_stmt_start(self, pos):
        """Offset of the start of the innermost statement (after `;`, `{` or `}` and not inside parentheses / brackets) that contains pos."""
        toks = self.toks
        stack = []          # open bracket tokens
        best = toks[self.body_open_idx + 1].start
        cand = {}           # depth -> last statement start seen at that brace depth
        for k in range(self.body_open_idx, self.body_close_idx):
            t = toks[k]
            if t.start >= pos:
                break
            if t.kind == "punct" and t.text in ("(", "[", "{"):
                stack.append(t.text)
            elif t.kind == "punct" and t.text in (")", "]", "}"):
                if stack: stack.pop()
            if t.kind == "punct" and t.text in (";", "{", "}") and not any(b in ("(", "[") for b in stack):
                cand[len(stack)] = toks[k + 1].start
                for dd in [x for x in cand if x > len(stack)]:
                    del cand[dd]
        if cand:
            best = cand[max(cand)]
        return best

    def stmt_end(self, start_idx):
        """Index of the token ending the statement that starts at token index start_idx:
        the ';' at depth 0, or the closing '}' of a block-like statement."""
        toks, br = self.toks, self.br
        k = start_idx
        while k < self.body_close_idx:
            t = toks[k]
            if t.kind == "punct" and t.text in ("(", "[", "{"):
                k = br[k] + 1
                continue
            if t.kind == "punct" and t.text == ";":
                return k
            if t.kind == "punct" and t.text in ("}", ")", "]"):
                return k - 1
            k += 1
        return self.body_close_idx - 1

# ---------------------------------------------------------------- edits
class Edit:
    def __init__(self, start, end, text, tag, order):
        self.start, self.end, self.text, self.tag, self.order = start, end, text, tag, order

def _unquote(arg):
    m = re.match(r'"((?:[^"\\]|\\.)*)"\s*(.*)$', arg)
    if not m:
        raise GenError("expected quoted string in %r" % arg)
    return m.group(1).replace('\\"', '"'), m.group(2).strip()

class FnDegrade(Exception):
    def __init__(self, label, reason):
        Exception.__init__(self, reason)
        self.label, self.reason = label, reason


class Extractor:
    def __init__(self, unit):
        self.unit = unit
        self.rule_counts = {}
        self.functions = []     # evidence: functions under contract
        self.dropped = []       # evidence: what extraction dropped
        self.assumed = []       # evidence: extracted functions whose body is left unverified
        self.autouse = []       # broadcast groups brought into scope in every extracted function body and loop body (@autouse)
        self.force_degrade = set()   # labels whose body annotations must not be applied (set by the runner after a structural error inside them)
        self.degraded = []      # (label, reason): functions whose anchors are lost: contract kept (assumed), body NOT verified

    def count(self, rule, n=1):
        self.rule_counts[rule] = self.rule_counts.get(rule, 0) + n

    def expand(self, ex, dirs):
        """One @extract block.  When the anchors of ONE function are lost (a loop, a statement prefix, a rule site no longer
        exists in its body) only that function is degraded: its signature and contract are kept, its body is replaced by
        `unimplemented!()` under external_body, and it is reported as not verified.  The other functions stay verified."""
        local = set()
        while True:
            snap = (dict(self.rule_counts), list(self.functions), list(self.dropped), list(self.assumed))
            try:
                return self._expand(ex, dirs, local | self.force_degrade)
            except FnDegrade as e:
                self.rule_counts, self.functions, self.dropped, self.assumed = snap[0], snap[1], snap[2], snap[3]
                if e.label in local or os.environ.get("VERIF_NO_DEGRADE") == "1":
                    raise GenError(e.reason)
                local.add(e.label)
                self.degraded.append((e.label, e.reason))

    def _expand(self, ex, dirs, degrade):
        """Return list of Pieces for one @extract block."""
        parts = [p.strip() for p in ex.arg.split(" :: ")]     # selectors are separated by ` :: ` (with blanks); `fmt::Display` is not split
        relfile, sels = parts[0], parts[1:]
        path = os.path.join(REPO, relfile)
        try:
            src = open(path).read()
        except OSError as e:
            raise GenError("cannot read %s: %s" % (path, e))
        try:
            item = rl.find_item(src, sels)
        except (KeyError, rl.LexError) as e:
            raise GenError("lost anchor: %s :: %s (%s)" % (relfile, " :: ".join(sels), e))
        base_label = self._label(sels)
        edits = []
        order = [0]
        def add(start, end, text, tag):
            order[0] += 1
            edits.append(Edit(start, end, text, tag, order[0]))

        lo, hi = item.start, item.end   # attributes + doc comments before item.start are dropped (R0)
        if item.attr_start < item.start:
            self.count("R0-attrs-docs")
            self.dropped.append("%s: attributes/docs before `%s`" % (relfile, rl.norm_ws(src[item.start:item.start + 40])))

        # R13: identifiers of the source that are reserved words inside verus! (`int`, `nat`) get a trailing underscore
        for t in rl.code_tokens(rl.tokenize(src[item.start:item.end])):
            if t.kind == "ident" and t.text in ("int", "nat"):
                add(item.start + t.start, item.start + t.end, t.text + "_", ("rule", "R13-verus-keyword", base_label))
                self.count("R13-verus-keyword")

        # sub-items (members of impl / nested items of fn)
        members = {}
        nested_ranges = []
        if item.kind in ("impl", "fn", "trait") and item.body_open is not None:
            for it in rl.items_in(src, item.body_open + 1, item.body_close):
                members.setdefault((it.kind, it.name), it)
                if item.kind == "fn" and it.kind in ("fn", "enum", "struct", "const", "impl"):
                    nested_ranges.append((it.attr_start, it.end))
                    add(it.attr_start, it.end, "", ("rule", "R8-hoist", it.kind + " " + str(it.name)))
                    self.count("R8-hoist")
                elif item.kind == "impl":
                    # docs/attrs of members dropped
                    if it.attr_start < it.start:
                        add(it.attr_start, it.start, "", ("rule", "R0-attrs-docs", it.name))
                        self.count("R0-attrs-docs")
        only = [d for d in dirs if d.name == "only"]
        if only:
            keep = set()
            for d in only:
                for x in d.arg.split(","):
                    k, _, nm = x.strip().partition(" ")
                    keep.add((k, nm.strip()))
            for key, it in members.items():
                if key not in keep:
                    add(it.attr_start, it.end, "", ("rule", "R0-drop-member", "%s %s" % key))
                    self.dropped.append("%s: member `%s %s` of `%s` not under contract (dropped)" % (relfile, key[0], key[1], base_label))
                    self.count("R0-drop-member")
            for key in keep:
                if key not in members:
                    raise GenError("lost anchor: member %s %s of %s" % (key[0], key[1], base_label))

        # current function scope
        cur = None          # FnInfo
        cur_label = base_label
        cur_exclude = []
        def apply_degrade(it, label):
            if label in degrade and it.body_open is not None:
                add(it.start, it.start, "#[verifier::external_body] ", ("ins", label, "assume-body", 0))
                add(it.body_open, it.body_close + 1, "{ unimplemented!() }", ("rule", "degraded-body", label, 0))
                self.count("degraded-body")
                if not any(l == label for l, _ in self.degraded):
                    self.degraded.append((label, "structural error inside the annotated body"))
        seen_fns = []
        fi_label = {}
        def set_fn(it, label):
            nonlocal cur, cur_label, cur_exclude
            cur = FnInfo(src, it)
            cur_label = label
            seen_fns.append([cur, label, it])
            cur_exclude = []
            if it.body_open is not None:
                for sub in rl.items_in(src, it.body_open + 1, it.body_close):
                    if sub.kind in ("fn", "enum", "struct", "const", "impl"):
                        cur_exclude.append((sub.attr_start, sub.end))
            self.functions.append({"label": label, "file": relfile, "name": it.name,
                                   "byte_range": [it.start, it.end],
                                   "sha256": hashlib.sha256(src[it.start:it.end].encode()).hexdigest()[:16]})
            apply_degrade(it, label)
        if item.kind == "fn":
            set_fn(item, base_label)

        def need_fn(d):
            if cur is None:
                raise GenError("%s:%d: @%s needs a function scope (@fn)" % (self.unit, d.line, d.name))

        def find_loop(d, ordstr):
            for lp in cur.loops(src, cur_exclude):
                if lp["ordstr"] == ordstr:
                    # the loop a contract was written for is identified by its ordinal AND its header (recorded from the tree the
                    # contract was written against, contracts/anchors.json): invariants written for `while let Some(x) = s.pop()`
                    # must not be attached to a `for x in s.into_iter().rev()` that happens to sit at the same place
                    header = rl.norm_ws(src[lp["kw_pos"]:lp["open"]])
                    key = "%s::%s::loop %s" % (relfile, cur_label, ordstr)
                    if RECORD is not None:
                        RECORD[key] = header
                    elif key in ANCHORS and ANCHORS[key] != header:
                        raise GenError("lost anchor: loop %s of %s is now `%s` (contract written for `%s`)" % (ordstr, cur_label, header[:60], ANCHORS[key][:60]))
                    return lp
            raise GenError("lost anchor: loop %s of %s" % (ordstr, cur_label))

        def find_stmt(d, arg):
            prefix, rest = _unquote(arg)
            k = 1
            m = re.match(r"#(\d+)", rest)
            if m:
                k = int(m.group(1))
            cnt = 0
            pnorm = rl.norm_ws(prefix)
            for idx, pos in cur.stmt_starts(cur_exclude):
                seg = rl.norm_ws(src[pos:pos + len(prefix) * 3 + 40])
                if seg.startswith(pnorm):
                    cnt += 1
                    if cnt == k:
                        return idx, pos
            raise GenError("lost anchor: statement %r #%d of %s" % (prefix, k, cur_label))

        loop_payload_all = {}   # (fn, ordstr) -> text inserted before loop body (for rules that rebuild headers)
        fnkey = ""
        for d in dirs:
            if d.name == "fn":
                fnkey = d.arg.strip()
            if d.name == "loop":
                loop_payload_all.setdefault((fnkey, d.arg.strip()), []).append(d)
            if d.name == "loopinit":
                loop_payload_all.setdefault((fnkey, "init:" + d.arg.strip()), []).append(d)
        fnkey = ""

        handled_loops = set()
        for d in dirs:
            n = d.name
            if cur is not None and cur_label in degrade and n not in ("only", "label", "fn", "ret", "header", "implitems", "rule"):
                continue    # degraded function: body annotations are not applied
            if cur is not None and cur_label in degrade and n == "rule" and d.arg.split()[0] not in ("pub", "sub"):
                continue
            try:
                if n == "only":
                    continue
                elif n == "label":
                    cur_label = d.arg
                    base_label = d.arg
                    if item.kind == "fn" and self.functions:
                        self.functions[-1]["label"] = d.arg
                        apply_degrade(item, d.arg)
                        if cur is not None:
                            fi_label[id(cur)] = d.arg
                elif n == "fn":
                    key = ("fn", d.arg.strip())
                    if key not in members:
                        raise GenError("lost anchor: fn %s in %s" % (d.arg, base_label))
                    set_fn(members[key], base_label + "::" + d.arg.strip())
                    fnkey = d.arg.strip()
                    handled_loops = set()
                elif n == "ret":
                    need_fn(d)
                    if cur.ret_start is None:
                        raise GenError("lost anchor: %s has no return type" % cur_label)
                    add(cur.ret_start, cur.ret_start, "(" + d.arg.strip() + ": ", ("ins", cur_label, "ret"))
                    add(cur.ret_end, cur.ret_end, ")", ("ins", cur_label, "ret"))
                elif n == "assume-body":
                    # the body is NOT verified (it depends on something outside the model, e.g. type inference
                    # returning Ok); its contract becomes an assumption listed in the evidence
                    need_fn(d)
                    add(cur.item.start, cur.item.start, "#[verifier::external_body] ", ("ins", cur_label, "assume-body", d.line))
                    self.assumed.append("%s: body not verified, contract assumed (%s)" % (cur_label, d.arg or "no reason given"))
                elif n == "implitems":
                    if item.kind not in ("impl", "trait"):
                        raise GenError("@implitems needs an impl item")
                    add(item.body_open + 1, item.body_open + 1, "\n" + d.text() + "\n", ("ins", base_label, "implitems", d.line))
                elif n == "header":
                    need_fn(d)
                    add(cur.sig_end, cur.sig_end, "\n" + d.text() + "\n", ("ins", cur_label, "header", d.line))
                elif n == "loop":
                    need_fn(d)
                    ordstr = d.arg.strip()
                    if ordstr in handled_loops:
                        continue
                    lp = find_loop(d, ordstr)
                    add(lp["open"], lp["open"], "\n" + d.text() + "\n", ("ins", cur_label, "loop " + ordstr, d.line))
                elif n in ("beforeloop", "afterloop", "loopstart", "loopend"):
                    need_fn(d)
                    la = d.arg.split()
                    lp = find_loop(d, la[0])
                    if n == "loopend":
                        # ghost code at the end of the loop body is skipped by `continue`: the number of `continue`s of this loop
                        # (not of nested loops) must be the one the contract was written for (`@loopend ORD continues K`, default 0)
                        want = int(la[2]) if len(la) >= 3 and la[1] == "continues" else 0
                        inner = [(l2["open_idx"], l2["close_idx"]) for l2 in cur.loops(src, cur_exclude)
                                 if lp["open_idx"] < l2["kw_idx"] < lp["close_idx"]]
                        have = 0
                        for q in range(lp["open_idx"] + 1, lp["close_idx"]):
                            tq = cur.toks[q]
                            if tq.kind == "ident" and tq.text == "continue" and not any(a < q < b for a, b in inner):
                                have += 1
                        if have != want:
                            raise GenError("lost anchor: loop %s of %s has %d `continue` (contract written for %d): ghost code at the end of the body would be skipped" % (la[0], cur_label, have, want))
                    pos = {"beforeloop": lp["kw_pos"], "afterloop": lp["close"] + 1,
                           "loopstart": lp["open"] + 1, "loopend": lp["close"]}[n]
                    add(pos, pos, "\n" + d.text() + "\n", ("ins", cur_label, n + " " + la[0], d.line))
                elif n == "closurespec":
                    # @closurespec "stmt prefix": clauses for the closure `|..| [-> T] { .. }` in that statement, inserted before its body
                    need_fn(d)
                    idx, pos = find_stmt(d, d.arg)
                    toks = cur.toks
                    q = idx
                    while toks[q].text != "|" and toks[q].text != "||":
                        q += 1
                    if toks[q].text == "|":
                        q += 1
                        while toks[q].text != "|":
                            q = cur.br[q] + 1 if (toks[q].kind == "punct" and toks[q].text in ("(", "[")) else q + 1
                    q += 1
                    arrow = q if toks[q].text == "->" else None
                    while toks[q].text != "{":
                        q = cur.br[q] + 1 if (toks[q].kind == "punct" and toks[q].text in ("(", "[")) else q + 1
                    mret = re.search(r"\bret\s+([A-Za-z_][A-Za-z0-9_]*)\s*$", d.arg)
                    if arrow is not None and mret:
                        add(toks[arrow + 1].start, toks[arrow + 1].start, "(" + mret.group(1) + ": ", ("ins", cur_label, "closure ret"))
                        add(toks[q - 1].end, toks[q - 1].end, ")", ("ins", cur_label, "closure ret"))
                    add(toks[q].start, toks[q].start, "\n" + d.text() + "\n", ("ins", cur_label, "closurespec " + d.arg, d.line))
                elif n == "loopinit":
                    continue    # consumed by rule R1 (ghost code between the iterator binding and the loop)
                elif n == "before":
                    need_fn(d)
                    idx, pos = find_stmt(d, d.arg)
                    add(pos, pos, d.text() + "\n", ("ins", cur_label, "before " + d.arg, d.line))
                elif n == "after":
                    need_fn(d)
                    idx, pos = find_stmt(d, d.arg)
                    e = cur.stmt_end(idx)
                    epos = cur.toks[e].end
                    add(epos, epos, "\n" + d.text() + "\n", ("ins", cur_label, "after " + d.arg, d.line))
                elif n == "bodystart":
                    need_fn(d)
                    add(cur.body_open + 1, cur.body_open + 1, "\n" + d.text() + "\n", ("ins", cur_label, "bodystart", d.line))
                elif n == "atend":
                    need_fn(d)
                    add(cur.body_close, cur.body_close, d.text() + "\n", ("ins", cur_label, "atend", d.line))
                elif n == "rule":
                    loop_payload = dict((k[1], v) for k, v in loop_payload_all.items() if k[0] == fnkey)
                    self._rule(d, src, item, cur, cur_label, cur_exclude, add, find_loop, loop_payload, handled_loops)
                else:
                    raise GenError("%s:%d: unknown directive @%s" % (self.unit, d.line, n))
            except GenError as e:
                if n == "fn" or cur is None or item.kind not in ("impl", "fn", "trait"):
                    raise
                if cur_label in degrade:
                    if n == "rule" and d.arg.split()[0] == "sub":
                        continue    # a substitution inside the (replaced) body of a degraded function
                    raise
                raise FnDegrade(cur_label, str(e))

        for fi, label, it in seen_fns:
            label = fi_label.get(id(fi), label)
            if it.body_open is not None and label not in degrade:
                self._auto_r12(fi, label, add)
        # @autouse: the broadcast groups are brought into scope at the start of every verified function body and loop body
        # (Verus does not carry a `broadcast use` of the function body into its loops)
        if self.autouse:
            use = "".join(" broadcast use %s; " % g for g in self.autouse)
            unverified = set(e.tag[1] for e in edits if e.tag[0] == "ins" and len(e.tag) > 2 and e.tag[2] == "assume-body")
            for fi, label, it in seen_fns:
                label = fi_label.get(id(fi), label)
                if it.body_open is None or label in degrade or label in unverified:
                    continue
                add(it.body_open + 1, it.body_open + 1, use, ("ins", label, "autouse", 0))
                excl = [(sub.attr_start, sub.end) for sub in rl.items_in(src, it.body_open + 1, it.body_close) if sub.kind in ("fn", "enum", "struct", "const", "impl")]
                for lp in fi.loops(src, excl):
                    add(lp["open"] + 1, lp["open"] + 1, use, ("ins", label, "autouse", 0))
            self.count("autouse-broadcast", 0)

        # apply edits; edits inside a dropped / hoisted range are discarded with it
        dels = [e for e in edits if e.tag[0] == "rule" and e.tag[1] in ("R0-drop-member", "R8-hoist", "degraded-body")]
        def swallowed(e, dl):
            if dl is e or not (dl.start <= e.start and e.end <= dl.end):
                return False
            if e in dels and (dl.end - dl.start) <= (e.end - e.start):
                return False
            if dl.tag[1] == "degraded-body" and e.start == e.end == dl.start:
                return False    # the contract header sits right before the replaced body
            return True
        edits = [e for e in edits if not any(swallowed(e, dl) for dl in dels)]
        edits.sort(key=lambda e: (e.start, 0 if e.start == e.end else 1, e.order))
        # insertion at same position as start of a replacement comes first
        pieces = []
        pos = lo
        src_tag = ("src", relfile, base_label)
        for e in edits:
            if e.start < lo or e.end > hi:
                raise GenError("edit outside item in %s" % base_label)
            if e.start < pos:
                # overlapping edits (e.g. member dropped and also edited)
                if e.end <= pos:
                    continue
                raise GenError("overlapping edits in %s at %d" % (base_label, e.start))
            if e.start > pos:
                pieces.append(Piece(src[pos:e.start], ("src", relfile, base_label, pos)))
            if e.start == e.end:
                pieces.append(Piece(e.text, e.tag))
            else:
                pieces.append(Piece(e.text, e.tag + ("orig", src[e.start:e.end])))
            pos = e.end
        if pos < hi:
            pieces.append(Piece(src[pos:hi], ("src", relfile, base_label, pos)))
        pieces.append(Piece("\n", ("tpl",)))
        # self-check: erasing insertions and un-applying rules gives back the source bytes
        back = "".join(p.text if p.tag[0] == "src" else (p.tag[-1] if (len(p.tag) >= 2 and p.tag[-2] == "orig") else "") for p in pieces[:-1])
        if back != src[lo:hi]:
            raise GenError("self-check failed for %s: erasure does not reproduce the source" % base_label)
        return pieces

    def _auto_r12(self, fi, label, add):
        """R12: `debug_assert_eq!(a, b[, msg..])` / `assert_eq!` / `.._ne!`  =>  `debug_assert!((a) == (b))` / `assert!(..)`
        (same check, only the panic message differs; Verus has no model of assert_failed).  Applied to every extracted function."""
        toks = fi.toks
        n = 0
        for q in range(fi.body_open_idx, fi.body_close_idx):
            t = toks[q]
            if t.kind == "ident" and t.text in ("debug_assert_eq", "assert_eq", "debug_assert_ne", "assert_ne") and toks[q + 1].text == "!" and toks[q + 2].text == "(":
                o = q + 2
                c = fi.br[o]
                commas = []
                j = o + 1
                while j < c:
                    tj = toks[j]
                    if tj.kind == "punct" and tj.text in ("(", "[", "{"):
                        j = fi.br[j] + 1; continue
                    if tj.text == ",":
                        commas.append(j)
                    j += 1
                if len(commas) < 1:
                    continue
                op = " == " if t.text.endswith("_eq") else " != "
                add(t.start, t.end, t.text[:-3], ("rule", "R12-assert-eq", label, 0))
                add(toks[o + 1].start, toks[o + 1].start, "(", ("rule-ins", "R12-assert-eq", label, 0))
                add(toks[commas[0]].start, toks[commas[0]].end, ")" + op + "(", ("rule", "R12-assert-eq", label, 0))
                if len(commas) > 1:
                    add(toks[commas[1]].start, toks[c].start, ")", ("rule", "R12-assert-eq", label, 0))     # message arguments dropped
                else:
                    add(toks[c].start, toks[c].start, ")", ("rule-ins", "R12-assert-eq", label, 0))
                n += 1
        if n:
            self.count("R12-assert-eq", n)

    @staticmethod
    def _label(sels):
        out = []
        for s in sels:
            if s.startswith("impl"):
                h = rl.norm_ws(s)
                h = re.sub(r"^impl(<[^>]*>)?\s*", "", h)
                out.append(h)
            elif s.startswith("macro "):
                out.append(s.split()[1] + "!")
            else:
                out.append(s.split(" ", 1)[1])
        return "::".join(out)

    # ------------------------------------------------------------ rules
    def _rule(self, d, src, item, cur, cur_label, cur_exclude, add, find_loop, loop_payload, handled_loops):
        args = d.arg.split()
        rule = args[0]
        if rule == "pubfields":
            # struct fields made pub (tuple struct or named)
            text = src[item.start:item.end]
            toks = rl.code_tokens(rl.tokenize(text))
            br = rl.match_brackets(toks)
            # first group ( or { after the `struct` / `enum` keyword (skips `pub(crate)`)
            k = 0
            while toks[k].text not in ("struct", "enum", "union"):
                k += 1
            while toks[k].text not in ("(", "{"):
                k += 1
            close = br[k]
            j = k + 1
            fld_start = True
            depth_lt = 0
            n = 0
            while j < close:
                t = toks[j]
                if fld_start:
                    # skip attributes
                    while toks[j].text == "#":
                        j = br[j + 1] + 1
                    t = toks[j]
                    if t.text != "pub":
                        add(item.start + t.start, item.start + t.start, "pub ", ("rule", "R0-pubfields", cur_label))
                        n += 1
                    fld_start = False
                if t.kind == "punct" and t.text in ("(", "[", "{"):
                    j = br[j] + 1; continue
                if t.text == "<": depth_lt += 1
                elif t.text == ">": depth_lt -= 1
                elif t.text == ">>": depth_lt -= 2
                elif t.text == "," and depth_lt == 0:
                    fld_start = True
                    if j + 1 >= close: break
                j += 1
            self.count("R0-pubfields", n)
            return
        if rule == "R10":
            # `fn f(mut self, ..) { B }`  =>  `fn f(self, ..) { let mut NAME = self; B[self := NAME] }`
            name = args[1] if len(args) > 1 else "this"
            toks = cur.toks
            po, pc = cur.params_open, cur.params_close
            if not (toks[po + 1].text == "mut" and toks[po + 2].text == "self"):
                raise GenError("rule R10 no longer matches %s: first parameter is not `mut self`" % cur_label)
            add(toks[po + 1].start, toks[po + 2].start, "", ("rule", "R10-mut-self", cur_label, d.line))
            add(cur.body_open + 1, cur.body_open + 1, " let mut %s = self;" % name, ("rule-ins", "R10-mut-self", cur_label, d.line))
            for q in range(cur.body_open_idx + 1, cur.body_close_idx):
                t = toks[q]
                if t.kind == "ident" and t.text == "self":
                    add(t.start, t.end, name, ("rule", "R10-mut-self", cur_label, d.line))
            self.count("R10-mut-self")
            return
        if rule == "pub":
            # visibility normalised to pub (Verus: items mentioned by pub spec functions must be visible)
            it = cur.item if cur is not None else item
            head = src[it.start:it.start + 4]
            m = re.match(r"pub\s*\([^)]*\)", src[it.start:it.start + 40])
            if m:
                add(it.start, it.start + m.end(), "pub", ("rule", "R0-pub", cur_label, d.line))
                self.count("R0-pub")
                return
            if head.startswith("pub"):
                return
            add(it.start, it.start, "pub ", ("rule-ins", "R0-pub", cur_label, d.line))
            self.count("R0-pub")
            return
        if rule == "R15":
            # `assert!(cond, "message {x}", args..)`  =>  `rt_assert(cond)`: a run-time check that panics when cond is false
            # (assumed wrapper: cond holds afterwards); the message arguments are dropped
            toks = cur.toks
            n = 0
            for q in range(cur.body_open_idx, cur.body_close_idx):
                t = toks[q]
                if t.kind == "ident" and t.text == "assert" and toks[q + 1].text == "!" and toks[q + 2].text == "(" and (q == 0 or toks[q - 1].text not in (".", "::")):
                    o = q + 2
                    c = cur.br[o]
                    commas = []
                    j = o + 1
                    while j < c:
                        tj = toks[j]
                        if tj.kind == "punct" and tj.text in ("(", "[", "{"):
                            j = cur.br[j] + 1; continue
                        if tj.text == ",":
                            commas.append(j)
                        j += 1
                    add(t.start, toks[q + 1].end, "rt_assert", ("rule", "R15-assert-macro", cur_label, d.line))
                    if commas:
                        add(toks[commas[0]].start, toks[c].start, "", ("rule", "R15-assert-macro", cur_label, d.line))
                    n += 1
            if n == 0:
                raise GenError("rule R15 no longer matches in %s" % cur_label)
            self.count("R15-assert-macro", n)
            return
        if rule == "R12":
            return      # applied automatically to every extracted function (see _auto_r12); the directive is kept as documentation
        if rule == "R2c":
            # closure annotation: payload lines `SOURCE-CLOSURE := ANNOTATED-CLOSURE`; the annotated closure must end with
            # `{ BODY }` where BODY is textually the body of the source closure (only parameter types, a named result and
            # requires/ensures clauses are added - the eta/annotation rule R2 for closures)
            lo, hi = cur.item.start, cur.item.end
            for w in [l for l in d.payload if l.strip()]:
                orig, _, ann = w.strip().partition(" := ")
                if orig.rstrip().endswith("..") and orig.strip().startswith("|"):
                    # wildcard form `|a, b| .. := |a: T, b: U| -> (r: V) ensures .. { [proof {..}] .. }`: only the parameter list is the
                    # anchor; the body is taken from the source WHATEVER it is and checked against the clauses
                    head = orig.rstrip()[:-2].strip()
                    rxh = re.compile(r"\s*".join(re.escape(t.text) for t in rl.code_tokens(rl.tokenize(head))))
                    msh = list(rxh.finditer(src, lo, hi))
                    if len(msh) != 1:
                        raise GenError("rule R2c: closure head %r must occur exactly once in %s (found %d)" % (head, cur_label, len(msh)))
                    pos = msh[0].start()
                    toks = cur.toks
                    q = next(i for i, t in enumerate(toks) if t.start >= msh[0].end())
                    if toks[q].text == "->":
                        raise GenError("rule R2c: wildcard form needs a closure without return type annotation in %s" % cur_label)
                    if toks[q].text == "{":
                        e = cur.br[q]
                    else:
                        e = q
                        while True:
                            t = toks[e]
                            if t.kind == "punct" and t.text in ("(", "[", "{"):
                                e = cur.br[e] + 1; continue
                            if t.kind == "punct" and t.text in (",", ")", ";", "]", "}"):
                                e -= 1; break
                            e += 1
                    body_src = src[toks[q].start:toks[e].end]
                    if ann.count("..") < 1 or not ann.rstrip().endswith("}"):
                        raise GenError("rule R2c: wildcard annotation must contain `..` for the body in %s" % cur_label)
                    k2 = ann.rindex("..")
                    ann2 = ann[:k2] + body_src + ann[k2 + 2:]
                    mh = re.match(r"^([a-z_][a-z0-9_]*)\s*=\s*(\|.*)$", ann2, re.S)
                    endpos = toks[e].end
                    if mh:
                        name, ann2 = mh.group(1), mh.group(2)
                        st = cur.enclosing_stmt_start(pos)
                        add(st, st, "let %s = %s;\n" % (name, ann2), ("rule-ins", "R2c-closure-annotation", cur_label, d.line))
                        add(pos, endpos, name, ("rule", "R2c-closure-annotation", cur_label, d.line))
                    else:
                        # the source body stays a source piece: only the head is replaced and the clauses / braces are inserted around it
                        pre = ann2[:ann2.rindex(body_src)] if body_src in ann2 else None
                        add(pos, toks[q].start, ann[:k2], ("rule", "R2c-closure-annotation", cur_label, d.line))
                        add(endpos, endpos, ann[k2 + 2:], ("rule-ins", "R2c-closure-annotation", cur_label, d.line))
                    self.count("R2c-closure-annotation")
                    continue
                # the closure is matched token-wise (layout of the source does not matter)
                rx = re.compile(r"\s*".join(re.escape(t.text) for t in rl.code_tokens(rl.tokenize(orig))))
                ms = list(rx.finditer(src, lo, hi))
                if len(ms) != 1:
                    raise GenError("rule R2c: closure %r must occur exactly once in %s (found %d)" % (orig, cur_label, len(ms)))
                pos = ms[0].start()
                orig = src[pos:ms[0].end()]
                body = orig.split("|", 2)[2].strip()
                at = rl.code_tokens(rl.tokenize(ann))
                abr = rl.match_brackets(at)
                if at[-1].text != "}":
                    raise GenError("rule R2c: annotated closure must end with `{ body }` in %s" % cur_label)
                ob = abr[len(at) - 1]
                inner = at[ob + 1:len(at) - 1]
                # ghost `proof { .. }` blocks inside the annotated body are allowed; everything else must be the source body
                kept, q = [], 0
                ibr = rl.match_brackets(inner)
                while q < len(inner):
                    if inner[q].text == "proof" and q + 1 < len(inner) and inner[q + 1].text == "{":
                        q = ibr[q + 1] + 1
                        continue
                    kept.append(inner[q].text); q += 1
                if kept != [t.text for t in rl.code_tokens(rl.tokenize(body))]:
                    raise GenError("rule R2c: annotated closure does not keep the body %r in %s" % (body, cur_label))
                mh = re.match(r"^([a-z_][a-z0-9_]*)\s*=\s*(\|.*)$", ann, re.S)
                if mh:
                    # hoisting form `NAME = |..| ..`: `let NAME = <closure>;` is placed before the enclosing statement and the
                    # closure is replaced by NAME (closure creation has no side effect, evaluation order is unchanged)
                    name, ann = mh.group(1), mh.group(2)
                    st = cur.enclosing_stmt_start(pos)
                    add(st, st, "let %s = %s;\n" % (name, ann), ("rule-ins", "R2c-closure-annotation", cur_label, d.line))
                    add(pos, pos + len(orig), name, ("rule", "R2c-closure-annotation", cur_label, d.line))
                else:
                    add(pos, pos + len(orig), ann, ("rule", "R2c-closure-annotation", cur_label, d.line))
                self.count("R2c-closure-annotation")
            return
        if rule == "R17":
            # tail expression `E` of the fn body  =>  `let NAME = E; <ghost payload> NAME`  (so that ghost code can follow the last call)
            name = args[1]
            toks = cur.toks
            depth, last_semi = 0, None
            for q in range(cur.body_open_idx + 1, cur.body_close_idx):
                t = toks[q]
                if t.kind == "punct" and t.text in ("(", "[", "{"): depth += 1
                elif t.kind == "punct" and t.text in (")", "]", "}"): depth -= 1
                elif t.kind == "punct" and t.text == ";" and depth == 0: last_semi = q
            if last_semi is None or last_semi + 1 >= cur.body_close_idx:
                raise GenError("rule R17: %s has no tail expression after a statement" % cur_label)
            # block-like statements (while / for / loop / if [else ..] / match) between the last `;` and the tail expression are skipped
            q = last_semi + 1
            while toks[q].kind == "ident" and toks[q].text in ("while", "for", "loop", "if", "match"):
                m = q + 1
                while True:
                    tm = toks[m]
                    if tm.kind == "punct" and tm.text in ("(", "["):
                        m = cur.br[m] + 1; continue
                    if tm.text == "{":
                        break
                    m += 1
                e = cur.br[m]
                # else / else if chains
                while toks[e + 1].kind == "ident" and toks[e + 1].text == "else":
                    m = e + 2
                    while toks[m].text != "{":
                        m = cur.br[m] + 1 if (toks[m].kind == "punct" and toks[m].text in ("(", "[")) else m + 1
                    e = cur.br[m]
                if e + 1 >= cur.body_close_idx:
                    break       # this block IS the tail expression
                q = e + 1
            st = toks[q].start
            add(st, st, "let %s = " % name, ("rule-ins", "R17-name-tail", cur_label, d.line))
            add(cur.body_close, cur.body_close, ";\n" + d.text() + "\n" + name + "\n", ("rule-ins", "R17-name-tail", cur_label, d.line))
            self.count("R17-name-tail")
            return
        if rule in ("R14", "R14?"):
            # `NAME.len()` on a `&str` local NAME  =>  `str_len(NAME)`: vstd gives `str::len` no usable postcondition and
            # forbids a second specification, so the call is redirected to an assumed wrapper with the same body
            # `@rule R14 NAME [WRAPPER]`; `R14?` = apply where it occurs, no anchor (the source need not call NAME.len() at all)
            name = args[1]
            wrapper = args[2] if len(args) > 2 else "str_len"
            toks = cur.toks
            n = 0
            for q in range(cur.body_open_idx, cur.body_close_idx - 4):
                if (toks[q].kind == "ident" and toks[q].text == name and toks[q + 1].text == "." and toks[q + 2].text == "len"
                        and toks[q + 3].text == "(" and toks[q + 4].text == ")" and toks[q - 1].text != "."):
                    add(toks[q].start, toks[q + 4].end, "%s(%s)" % (wrapper, name), ("rule", "R14-str-len", cur_label, d.line))
                    n += 1
            if n == 0 and rule == "R14?":
                return
            if n == 0:
                raise GenError("rule R14 no longer matches in %s" % cur_label)
            self.count("R14-str-len", n)
            return
        if rule == "ascribe":
            # @rule ascribe "let mut x" "T" : add a type ascription to a let (Rust infers the same type;
            # needed when ghost code mentions the variable before inference has fixed its type)
            a, rest = _unquote(d.arg[len("ascribe"):].strip())
            ty, _ = _unquote(rest)
            lo, hi = cur.item.start, cur.item.end
            pos = src.find(a, lo, hi)
            if pos < 0 or src.find(a, pos + 1, hi) >= 0:
                raise GenError("rule ascribe: %r must occur exactly once in %s" % (a, cur_label))
            after = src[pos + len(a):pos + len(a) + 3]
            if not re.match(r"\s*=", after):
                raise GenError("rule ascribe: %r is not followed by `=` in %s" % (a, cur_label))
            add(pos + len(a), pos + len(a), ": " + ty, ("rule-ins", "R11-ascribe", cur_label, d.line))
            self.count("R11-ascribe")
            return
        if rule == "macro-inst":
            # @rule macro-inst MACRO $var=Value : instantiate a macro_rules transcriber the way the
            # invocation `MACRO!(Value, ...)` in the same file does (first macro argument only)
            mac = args[1]
            var, _, val = args[2].partition("=")
            if not re.search(r"\b%s!\(\s*%s\s*[,)]" % (re.escape(mac), re.escape(val)), src):
                raise GenError("rule macro-inst: no invocation %s!(%s, ...) in source" % (mac, val))
            n = 0
            for m in re.finditer(re.escape(var) + r"\b", src[item.start:item.end]):
                add(item.start + m.start(), item.start + m.end(), val, ("rule", "R9-macro-inst", cur_label, d.line))
                n += 1
            if n == 0:
                raise GenError("rule macro-inst: %s does not occur in %s" % (var, cur_label))
            self.count("R9-macro-inst", n)
            return
        if rule == "sub":
            a, rest = _unquote(d.arg[len("sub"):].strip())
            if not rest.startswith("=>"):
                raise GenError("%s:%d: @rule sub needs =>" % (self.unit, d.line))
            b, rest2 = _unquote(rest[2:].strip())
            k = 1
            m = re.match(r"#(\d+)", rest2)
            if m: k = int(m.group(1))
            lo, hi = (cur.item.start, cur.item.end) if cur else (item.start, item.end)
            # the source text is matched up to white space (line breaks / indentation inside the expression may differ)
            rx = re.compile(r"\s*".join(re.escape(x) for x in a.split()))
            ms = list(rx.finditer(src, lo, hi))
            if len(ms) < k:
                raise GenError("rule sub no longer matches in %s: %r" % (cur_label, a))
            pos, epos = ms[k - 1].start(), ms[k - 1].end()
            add(pos, epos, b, ("rule", "R-sub", cur_label, d.line))
            self.count("R-sub")
            return
        if rule == "R2":
            # `.map(Ctor)` where Ctor is a path naming a tuple-struct constructor: eta-expansion given in payload
            lo, hi = (cur.item.start, cur.item.end)
            pat = re.compile(r"\.map\(\s*((?:Self|[A-Z][A-Za-z0-9_]*)(?:::[A-Za-z_][A-Za-z0-9_]*)*)\s*\)")
            ms = [m for m in pat.finditer(src, lo, hi)]
            want = [l for l in d.payload if l.strip()]
            if len(ms) != len(want):
                raise GenError("rule R2 in %s: %d sites in source, %d closures in contract" % (cur_label, len(ms), len(want)))
            for m, w in zip(ms, want):
                ctor, _, clo = w.strip().partition(" := ")
                if ctor.strip() != m.group(1):
                    # the source maps ANOTHER constructor: the eta-expansion follows the source (the closure says what the source's
                    # constructor does), so that the function is checked against its contract instead of losing its anchor
                    clo = clo.replace(ctor.strip(), m.group(1))
                add(m.start(), m.end(), ".map(" + clo.strip() + ")", ("rule", "R2-eta", cur_label, d.line))
                self.count("R2-eta")
            return
        if rule in ("R1", "R3"):
            # @rule R1 loop ORD iter NAME   |   @rule R3 loop ORD index NAME
            ordstr, name = args[2], args[4]
            lp = find_loop(d, ordstr)
            if lp["kw"] != "for":
                raise GenError("rule %s: loop %s of %s is not a for loop" % (rule, ordstr, cur_label))
            toks = cur.toks
            k = lp["kw_idx"]
            # pattern tokens up to 'in' at depth 0
            j = k + 1
            while not (toks[j].kind == "ident" and toks[j].text == "in"):
                if toks[j].kind == "punct" and toks[j].text in ("(", "["):
                    j = cur.br[j] + 1
                else:
                    j += 1
            pat_text = src[toks[k + 1].start:toks[j - 1].end]
            expr_text = src[toks[j + 1].start:toks[lp["open_idx"] - 1].end]
            if len(args) > 6 and args[5] == "was":
                # `@rule R1 loop ORD iter NAME was "SRC-EXPR" => "MODEL-EXPR"`: the iterated expression is replaced by its model (counted as R-sub)
                a, rest = _unquote(d.arg.split(" was ", 1)[1].strip())
                b, _ = _unquote(rest.strip()[2:].strip())
                if rl.norm_ws(expr_text) != rl.norm_ws(a):
                    raise GenError("rule R1 no longer matches loop %s of %s: iterates over %r" % (ordstr, cur_label, expr_text))
                expr_text = b
                self.count("R-sub")
            inv = "\n".join(x.text() for x in loop_payload.get(ordstr, []))
            handled_loops.add(ordstr)
            head_lo, head_hi = toks[k].start, toks[lp["open_idx"] - 1].end
            if rule == "R1":
                init = "\n".join(x.text() for x in loop_payload.get("init:" + ordstr, []))
                new_head = "let mut %s = %s;\n%s\nloop\n%s\n{ match %s.next() { None => { break; } Some(%s) => " % (name, expr_text, init, inv, name, pat_text)
                add(head_lo, head_hi, new_head, ("rule", "R1-for-desugar", cur_label, d.line))
                add(lp["close"] + 1, lp["close"] + 1, " } }", ("rule-ins", "R1-for-desugar", cur_label, d.line))
                self.count("R1-for-desugar")
                return
            # R3
            pv = pat_text.strip()
            if not re.match(r"^[a-z_][a-z0-9_]*$", pv):
                raise GenError("rule R3: pattern %r is not a single variable" % pv)
            e = rl.norm_ws(expr_text)
            # read-only variants: `for p in A.iter().rev()` / `for p in A.iter()`: index loop with `let p = &A[k];`
            mro = re.match(r"^(.+)\.iter\(\)(\.rev\(\))?$", e) or re.match(r"^&\s*(?!mut\b)([A-Za-z_][A-Za-z0-9_.]*)()$", e)
            if mro:
                arr, desc = mro.group(1), bool(mro.group(2))
                bind = " let %s = &%s[%s];" % (pv, arr, name)
                if desc:
                    new_head = "let mut %s: usize = %s.len();\nwhile %s > 0\n%s\n" % (name, arr, name, inv)
                    add(head_lo, head_hi, new_head, ("rule", "R3-index-loop", cur_label, d.line))
                    add(lp["open"] + 1, lp["open"] + 1, " %s -= 1;%s" % (name, bind), ("rule-ins", "R3-index-loop", cur_label, d.line))
                else:
                    new_head = "let mut %s: usize = 0;\nwhile %s < %s.len()\n%s\n" % (name, name, arr, inv)
                    add(head_lo, head_hi, new_head, ("rule", "R3-index-loop", cur_label, d.line))
                    add(lp["open"] + 1, lp["open"] + 1, bind, ("rule-ins", "R3-index-loop", cur_label, d.line))
                    add(lp["close"], lp["close"], " %s += 1; " % name, ("rule-ins", "R3-index-loop", cur_label, d.line))
                self.count("R3-index-loop")
                return
            m1 = re.match(r"^(.+)\.iter_mut\(\)\.rev\(\)$", e)
            m2 = re.match(r"^&mut (.+)$", e)
            m3 = re.match(r"^(.+)\.iter_mut\(\)$", e)
            if m1:
                arr, desc = m1.group(1), True
            elif m2:
                arr, desc = m2.group(1), False
            elif m3:
                arr, desc = m3.group(1), False
            else:
                raise GenError("rule R3 no longer matches loop %s of %s: %r" % (ordstr, cur_label, e))
            # body: every use of pv must be `*pv`
            bi, bc = lp["open_idx"], lp["close_idx"]
            for q in range(bi + 1, bc):
                t = toks[q]
                if t.kind == "ident" and t.text == pv:
                    if toks[q - 1].text != "*":
                        raise GenError("rule R3: %s used other than as *%s in %s" % (pv, pv, cur_label))
                    add(toks[q - 1].start, t.end, "%s[%s]" % (arr, name), ("rule", "R3-index-loop", cur_label, d.line))
            if desc:
                new_head = "let mut %s: usize = %s.len();\nwhile %s > 0\n%s\n" % (name, arr, name, inv)
                add(head_lo, head_hi, new_head, ("rule", "R3-index-loop", cur_label, d.line))
                add(lp["open"] + 1, lp["open"] + 1, " %s -= 1;" % name, ("rule-ins", "R3-index-loop", cur_label, d.line))
            else:
                new_head = "let mut %s: usize = 0;\nwhile %s < %s.len()\n%s\n" % (name, name, arr, inv)
                add(head_lo, head_hi, new_head, ("rule", "R3-index-loop", cur_label, d.line))
                add(lp["close"], lp["close"], " %s += 1; " % name, ("rule-ins", "R3-index-loop", cur_label, d.line))
            self.count("R3-index-loop")
            return
        raise GenError("%s:%d: unknown rule %s" % (self.unit, d.line, rule))


def expand_includes(nodes, depth=0):
    """`@include x.vci` pastes a template fragment (which may itself contain @extract blocks)."""
    out = []
    for node in nodes:
        if node[0] == "include" and node[1].endswith(".vci"):
            if depth > 5:
                raise GenError("include depth")
            out.extend(expand_includes(parse_template(os.path.join(ROOT, node[1])), depth + 1))
        else:
            out.append(node)
    return out


def generate(unit, canary=None, degrade=()):
    """Expand contracts/<unit>.vc.  Returns (text, piecemap, extractor).
    piecemap: list of (start_char, end_char, tag)."""
    tpl = os.path.join(ROOT, "contracts", unit + ".vc")
    nodes = expand_includes(parse_template(tpl))
    ex = Extractor(unit)
    ex.force_degrade = set(degrade)
    pieces = []
    for node in nodes:
        if node[0] == "unit":
            continue
        if node[0] == "autouse":
            ex.autouse.append(node[1].strip())
            continue
        if node[0] == "free":
            pieces.append(Piece(node[1], ("tpl", unit + ".vc", node[2])))
        elif node[0] == "include":
            p = os.path.join(ROOT, node[1])
            pieces.append(Piece(open(p).read() + "\n", ("inc", node[1])))
        elif node[0] == "extract":
            pieces.extend(ex.expand(node[1], node[2]))
    text = ""
    pm = []
    for p in pieces:
        if not p.text:
            continue
        pm.append((len(text), len(text) + len(p.text), p.tag))
        text += p.text
    return text, pm, ex
