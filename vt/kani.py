"""Kani harnesses on the real crate (/verif/kani, path dependency on /repo, public API only).
Run in the thorough tier (the first build of the dependency tree with Kani's toolchain takes ~75 s)."""
import os, re, subprocess, time
from . import gen

ROOT = gen.ROOT

HARNESSES = {
    "kani_try_from_bytes": {"bounded": False, "timeout": 900,
                            "what": "TryFrom<&[u8]> for UIntValue: loop-free over all byte strings of length <= 33 (complete); discharges the contract that the Verus unit `literal` assumes for try_from"},
}


def run_harnesses(prop, names, tier):
    out = []
    env = dict(os.environ)
    env["CARGO_NET_OFFLINE"] = "true"
    outdir = os.environ.get("VERIF_OUT") or os.path.join(ROOT, "out")
    env["CARGO_TARGET_DIR"] = os.path.join(outdir, "kani-target")
    crate = os.path.join(ROOT, "kani")
    if gen.REPO != "/repo":
        # isolated runs (tools/par_matrix.sh, tools/iso_check.sh): a copy of the harness crate whose path dependency is the scratch copy
        import shutil
        crate = os.path.join(outdir, "kani-crate")
        shutil.rmtree(crate, ignore_errors=True)
        shutil.copytree(os.path.join(ROOT, "kani"), crate, ignore=shutil.ignore_patterns("target"))
        ct = os.path.join(crate, "Cargo.toml")
        txt = open(ct).read().replace('path = "/repo"', 'path = "%s"' % gen.REPO)
        open(ct, "w").write(txt)
    for h in names:
        meta = HARNESSES[h]
        cmd = ["cargo", "kani", "--harness", h]
        # two checks that share an out directory (C06 and C11 started side by side) must not run `cargo kani` in the same target
        # directory at the same time: the second one used to end "undecided"
        import fcntl
        os.makedirs(outdir, exist_ok=True)
        lock = open(os.path.join(outdir, "kani.lock"), "w")
        fcntl.flock(lock, fcntl.LOCK_EX)
        t0 = time.time()
        try:
            p = subprocess.run(cmd, cwd=crate, stdout=subprocess.PIPE, stderr=subprocess.STDOUT, text=True, env=env, timeout=meta["timeout"])
            txt = p.stdout
        except subprocess.TimeoutExpired:
            out.append({"harness": h, "status": "undecided", "summary": "timeout after %ds" % meta["timeout"], "cmd": " ".join(cmd),
                        "bounded": meta["bounded"], "what": meta["what"], "checks": 0, "checks_ok": 0})
            lock.close()
            continue
        lock.close()
        m = re.search(r"\*\* (\d+) of (\d+) failed", txt)
        failed, total = (int(m.group(1)), int(m.group(2))) if m else (0, 0)
        if "VERIFICATION:- SUCCESSFUL" in txt and total > 0:
            status = "pass"
        elif "VERIFICATION:- FAILED" in txt:
            status = "fail"
        else:
            status = "undecided"
        fails = re.findall(r"Check \d+: (\S+)\n\s+- Status: FAILURE\n\s+- Description: \"([^\"]*)\"", txt)
        out.append({"harness": h, "status": status, "checks": total, "checks_ok": total - failed, "cmd": " ".join(cmd) + " (cwd /verif/kani)",
                    "bounded": meta["bounded"], "what": meta["what"], "wall_s": round(time.time() - t0, 1),
                    "summary": "; ".join("%s: %s" % f for f in fails[:5]) or ("%d checks" % total), "tail": txt[-1500:] if status != "pass" else ""})
    return out
