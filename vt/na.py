"""Properties not claimed, with the reason (DESIGN.md section 7)."""
NOT_APPLICABLE = {
    "C01": "whole-compiler semantic preservation: needs contracts on the entire recursive translation (closure/collect code over abstract AST types), typing soundness through simplicity-lang unification and the Bit Machine/C jets; not tractable as per-function contracts. Its per-function mechanisms are proved under C07, C08, C09, C10, C14.",
    "C02": "CMR preservation, decodability and well-typedness of inserted witness values are decided inside simplicity-lang (Node::convert, finalize, type inference, encoder); the in-repo code only forwards data, no contract on it can express the external inference result.",
    "C03": "totality of code generation on everything the front end accepts is a soundness theorem relating ast::analyze to simplicity-lang unification over all programs; both sides are outside the reach of function contracts here.",
    "C13": "the documented grouped signature of a jet exists only as prose outside the repository; inside it jet.rs is the definition itself, so no contract can state 'documented'. Jet semantics are C code.",
    "C15": "print/parse round trip: the parse direction is the pest-generated parser (proc-macro output invisible to Verus; Kani did not finish a 5-byte input in 25 min); a contract could only assume the grammar and conclude what it assumed.",
    "C16": "same as C15: the pest-generated parser is on both sides of the equation.",
    "C17": "decided entirely by look-ahead details of minimal.pest compiled by a proc-macro; neither Verus nor Kani can reach the generated parser.",
    "C18": "pruning, finalisation and execution are simplicity-lang / C code; the in-repo code is a two-arm match forwarding env.",
    "C19": "hyper-property over repeated runs, processes and a CLI; per-call contracts cannot relate two executions or a process's stdout.",
}
PENDING = {}
