"""Which units / harnesses decide which property, and what each leaves uncovered."""
PROPS = {
    "C09": {
        "claim": "Proof for every counter width 2^n (not only 1,2,4,8,16): Verus discharges (a) the structural postcondition of the real compile::for_while - including the in-place task-stack construction with split_at_mut/copy_from_slice and the pop loop - that the result is for_while_n(f) = for_while_(n-1)(for_while_(n-1)(adapt f)), with for_while_0 and adapt_f proved against their defining terms, and (b) the semantic theorem, by induction on n, that evaluating this term on (acc, ctx) equals `run`: the body is applied to counter values 0,1,2,.. in increasing order with the accumulator threaded and ctx unchanged, a Left ends the loop without evaluating any later iteration, otherwise exactly 2^(2^n) iterations run. Proof is the right level: the term is built by doubling and the claim is about all iterations.",
        "note": "Assumed: Simplicity combinator algebra + eval (A-simp), vstd specs of Vec/slice operations (split_at_mut, copy_from_slice, pop), derive semantics of Pow2Usize comparisons, Borrow reflexivity; postconditions conditional on the builders returning Ok (typing not modelled); the step function is defined from the body term, so bodies that return something other than Left/Right are covered as 'fails'. Not covered: the call site in Call::compile, ast signature/width checks (ast.rs).",
        "units": ["forwhile"],
        "scope": [r"^forwhile/"],
        "level": "proof",
        "not_covered": ["call site in Call::compile", "ast signature/width checks"],
    },
    "C08": {
        "claim": "Proof, for every bound 2^k and every list length below it: Verus discharges the postcondition of the real compile::list_fold (with next_f_array, next_f_fold and the named.rs builders it calls, all cut verbatim from /repo/src on every run) stating that the built Simplicity term evaluates, on (list_val(es, bound), init), to the left fold f(e_k, .. f(e_1, init)) in list order with the accumulator threaded, and fails exactly when an application of f fails. list_val is the documented List layout shared with C07. A proof is the right level because the statement quantifies over all bounds and lengths and the function is a loop building ever larger terms.",
        "note": "Assumed: the Simplicity combinator algebra (each node constructor builds the term it is named after; eval transcribes the Bit Machine), std/vstd specs, derive semantics, Borrow reflexivity. Every postcondition is conditional on the type-inference-dependent builders returning Ok. Not covered: the fold call site in Call::compile, ast signature checks. Bodies of CoreExt::{unit_scribe,assert*,case_*} and PairBuilder::pair are assumed (their unwrap depends on typing).",
        "units": ["fold"],
        "scope": [r"^fold/"],
        "level": "proof",
        "not_covered": ["the fold call site in Call::compile (argument tupling, args.comp(&fold_body))",
                        "ast signature checks for the folded function",
                        "type inference: every postcondition is conditional on the builders returning Ok"],
    },
    "C11": {
        "claim": "Proof for every decimal string of any length: the real U256::from_str is proved to return Ok exactly for non-empty all-digit strings whose mathematical value is below 2^256 and to return that value (big-endian bytes), including the 78-digit early exit and the carry loop; no sampling bound.",
        "note": "Assumed: vstd model of str::chars / Chars::next, specs of trim_start_matches('0'), Chars::count, char::to_digit(10). Rule R3 rewrites the iter_mut().rev() loop into an index loop (validated in the thorough tier). Not covered yet: the other literal parsers (value.rs), ast passing the right type, the pest literal rules.",
        "units": ["num"],
        "scope": [r"^num/FromStr for U256", r"^num/lemma_", r"^literal/"],
        "level": "proof",
        "not_covered": ["ast::SingleExpression::analyze passing the right type", "pest literal rules (A-pest)"],
    },
}
