"""Which units / harnesses decide which property, and what each leaves uncovered."""
PROPS = {
    "C11": {
        "units": ["num"],
        "scope": [r"^num/FromStr for U256", r"^num/lemma_", r"^literal/"],
        "level": "proof",
        "not_covered": ["ast::SingleExpression::analyze passing the right type", "pest literal rules (A-pest)"],
    },
}
