"""Which units / harnesses decide which property, and what each leaves uncovered."""
PROPS = {
    "C08": {
        "units": ["fold"],
        "scope": [r"^fold/"],
        "level": "proof",
        "not_covered": ["the fold call site in Call::compile (argument tupling, args.comp(&fold_body))",
                        "ast signature checks for the folded function",
                        "type inference: every postcondition is conditional on the builders returning Ok"],
    },
    "C11": {
        "units": ["num"],
        "scope": [r"^num/FromStr for U256", r"^num/lemma_", r"^literal/"],
        "level": "proof",
        "not_covered": ["ast::SingleExpression::analyze passing the right type", "pest literal rules (A-pest)"],
    },
}
