"""Which units / harnesses decide which property, and what each leaves uncovered."""
PANIC_KINDS = ("panic-precondition", "overflow", "index", "debug_assert", "assert", "unreachable", "div-by-zero", "shift-overflow", "termination", "panic")

PROPS = {
    "C06": {
        "claim": "Proof of panic-freedom, for every argument satisfying the stated grammar precondition and with no length or depth bound, of the in-repo conversion code that text entry points run after the parser: Verus discharges every panic obligation (unwrap/expect on None/Err, slice and array indexing, integer overflow and underflow, debug_assert!, unreachable!) of U256::from_str, the power-of-two newtypes, UIntType::{two_n,bit_width,from_bit_width,byte_width}, UIntValue::{u1,u2,u4,parse_decimal} and Value::parse_hexadecimal.",
        "note": "Only panic-type obligations are in scope of this check (postconditions belong to C11). Precondition = A-pest: the digit string handed over by the parser matches its grammar rule after `_` removal (possibly empty). NOT covered: the pest-generated parser itself (stack depth, unwrap on pair shapes in parse.rs), ast::analyze, serde JSON, error rendering, UIntValue::parse_binary (iterator adapters; Kani harness planned). Machine integers are checked for overflow, not treated as mathematical.",
        "units": ["num", "literal"],
        "kinds": PANIC_KINDS,
        "level": "proof",
        "not_covered": ["pest-generated parser", "ast::analyze", "serde.rs", "RichError rendering", "UIntValue::parse_binary"],
    },
    "C07": {
        "claim": "Proof for every length n / every bound 2^k of the split rule that fixes the layout of tuples, arrays and lists: the real BTreeSlice::as_node is proved to split a slice of n >= 2 elements at n - npo2(n)/2, and lemma_split proves that the right part then is the largest power of two strictly below n; Partition::{from_slice, as_node, is_complete} are proved to produce (block of bound/2 elements or empty block, partition of the rest with bound/2); the power-of-two newtypes (new, mul2, checked_div2, log2, their debug_assert!/unreachable! sites) are proved to keep their invariant. These are the functions every layout (types, values, patterns, list fold) is computed with.",
        "note": "Assumed: std specs (is_power_of_two, next_power_of_two, trailing_zeros), slice extensionality, derive semantics; slices have at most isize::MAX elements (next_power_of_two would overflow above 2^63). Not yet under contract: the folds over these trees (BTreeSlice::fold, Partition::fold, Unfolder, Combiner), StructuralType/StructuralValue constructors, the cast acceptance test in ast.rs and Value::reconstruct; see level_note in evidence.",
        "units": ["array", "num"],
        "scope": [r"^array/", r"^num/(NonZeroPow2Usize|Pow2Usize)", r"^num/lemma_"],
        "level": "proof",
        "not_covered": ["BTreeSlice::fold / Partition::fold / Unfolder / Combiner (post-order stack machines)", "StructuralType / StructuralValue constructors over simplicity::types::Final", "cast acceptance in ast.rs:1150", "Value::reconstruct round trip"],
    },
    "C10": {
        "claim": "Proof for every pattern shape: the real BasePattern::get (the variable lookup of the code generator) is proved to return the take/drop path of the FIRST pre-order (leftmost) occurrence of the identifier, and never to pop an empty selector when the identifier occurs; SelectorBuilder::h is proved to build exactly that path term; lemma_lookup then shows the term evaluates, on every value matching the environment pattern, to the component bound there. Scope::{push_scope, pop_scope, insert} are proved to touch only the innermost scope. Since newer bindings are nested to the left (lemma_newest_shadows / lemma_older_visible over `nest`), the leftmost occurrence is the most recent binding in scope.",
        "note": "Assumed: miniscript's verbose pre-order iterator enumerates the tree given by as_node (as_node itself is verified), Identifier equality is string equality, Simplicity term algebra. Not covered: Scope::get_input_pattern (flat_map/fold closures; it is the place that realises `nest`), From<&Pattern> for BasePattern, ast::Scope (typing-side scope stack), the uses in compile_blk / Match::compile, BasePattern::translate beyond its identifier case.",
        "units": ["lookup"],
        "searchers": ["lookup/"],
        "scope": [r"^lookup/"],
        "level": "proof",
        "not_covered": ["Scope::get_input_pattern", "From<&Pattern> for BasePattern", "ast::Scope", "BasePattern::translate (non-identifier targets)"],
    },
    "C09": {
        "claim": "Proof for every counter width 2^n (not only 1,2,4,8,16): Verus discharges (a) the structural postcondition of the real compile::for_while - including the in-place task-stack construction with split_at_mut/copy_from_slice and the pop loop - that the result is for_while_n(f) = for_while_(n-1)(for_while_(n-1)(adapt f)), with for_while_0 and adapt_f proved against their defining terms, and (b) the semantic theorem, by induction on n, that evaluating this term on (acc, ctx) equals `run`: the body is applied to counter values 0,1,2,.. in increasing order with the accumulator threaded and ctx unchanged, a Left ends the loop without evaluating any later iteration, otherwise exactly 2^(2^n) iterations run. Proof is the right level: the term is built by doubling and the claim is about all iterations.",
        "note": "Assumed: Simplicity combinator algebra + eval (A-simp), vstd specs of Vec/slice operations (split_at_mut, copy_from_slice, pop), derive semantics of Pow2Usize comparisons, Borrow reflexivity; postconditions conditional on the builders returning Ok (typing not modelled); the step function is defined from the body term, so bodies that return something other than Left/Right are covered as 'fails'. Not covered: the call site in Call::compile, ast signature/width checks (ast.rs).",
        "units": ["forwhile"],
        "searchers": ["forwhile/for_while"],
        "scope": [r"^forwhile/"],
        "level": "proof",
        "not_covered": ["call site in Call::compile", "ast signature/width checks"],
    },
    "C08": {
        "claim": "Proof, for every bound 2^k and every list length below it: Verus discharges the postcondition of the real compile::list_fold (with next_f_array, next_f_fold and the named.rs builders it calls, all cut verbatim from /repo/src on every run) stating that the built Simplicity term evaluates, on (list_val(es, bound), init), to the left fold f(e_k, .. f(e_1, init)) in list order with the accumulator threaded, and fails exactly when an application of f fails. list_val is the documented List layout shared with C07. A proof is the right level because the statement quantifies over all bounds and lengths and the function is a loop building ever larger terms.",
        "note": "Assumed: the Simplicity combinator algebra (each node constructor builds the term it is named after; eval transcribes the Bit Machine), std/vstd specs, derive semantics, Borrow reflexivity. Every postcondition is conditional on the type-inference-dependent builders returning Ok. Not covered: the fold call site in Call::compile, ast signature checks. Bodies of CoreExt::{unit_scribe,assert*,case_*} and PairBuilder::pair are assumed (their unwrap depends on typing).",
        "units": ["fold"],
        "searchers": ["fold/list_fold"],
        "scope": [r"^fold/"],
        "level": "proof",
        "not_covered": ["the fold call site in Call::compile (argument tupling, args.comp(&fold_body))",
                        "ast signature checks for the folded function",
                        "type inference: every postcondition is conditional on the builders returning Ok"],
    },
    "C11": {
        "claim": "Proof for every decimal string of any length: the real U256::from_str is proved to return Ok exactly for non-empty all-digit strings whose mathematical value is below 2^256 and to return that value (big-endian bytes), including the 78-digit early exit and the carry loop; no sampling bound.",
        "note": "Assumed: vstd model of str::chars / Chars::next, specs of trim_start_matches('0'), Chars::count, char::to_digit(10). Rule R3 rewrites the iter_mut().rev() loop into an index loop (validated in the thorough tier). Not covered yet: the other literal parsers (value.rs), ast passing the right type, the pest literal rules.",
        "units": ["num", "literal"],
        "searchers": ["num/FromStr for U256::from_str", "literal/Value::parse_hexadecimal", "literal/UIntValue::parse_decimal"],
        "scope": [r"^num/FromStr for U256", r"^num/lemma_", r"^literal/"],
        "level": "proof",
        "not_covered": ["ast::SingleExpression::analyze passing the right type", "pest literal rules (A-pest)"],
    },
}
