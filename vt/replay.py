"""Witness search and replay against the REAL crate.

Verus gives no counterexample.  When an obligation fails, the check looks for a concrete
input on which the real function (called through the driver binary built from
/verif/replay, which links /repo) disagrees with an executable transcription of the
specification (the Python functions below mirror the spec functions of speclib/*.rs).
"""
import os, subprocess, json, random, time
from . import gen

ROOT = gen.ROOT
TARGET = os.path.join(ROOT, "out", "replay-target")
BIN = os.path.join(TARGET, "release", "verif-replay")


class Driver:
    def __init__(self):
        self.proc = None
        self.build_log = ""

    def build(self):
        env = dict(os.environ)
        env["CARGO_NET_OFFLINE"] = "true"
        env["CARGO_TARGET_DIR"] = TARGET
        if os.environ.get("VERIF_HOOKS", "1") == "1":
            env["RUSTFLAGS"] = (env.get("RUSTFLAGS", "") + " --cfg simfony_verif").strip()
        p = subprocess.run(["cargo", "build", "--release", "--offline"], cwd=os.path.join(ROOT, "replay"),
                           stdout=subprocess.PIPE, stderr=subprocess.STDOUT, text=True, env=env)
        self.build_log = p.stdout[-3000:]
        return p.returncode == 0

    def start(self):
        self.proc = subprocess.Popen([BIN], stdin=subprocess.PIPE, stdout=subprocess.PIPE, text=True, bufsize=1)

    n_calls = 0

    def call(self, op, *args):
        self.n_calls += 1
        if self.proc is None or self.proc.poll() is not None:
            self.start()
        self.proc.stdin.write("\t".join([op] + list(args)) + "\n")
        self.proc.stdin.flush()
        line = self.proc.stdout.readline()
        if not line:
            # driver died (abort / stack overflow)
            rc = self.proc.wait()
            self.proc = None
            return "died rc=%s" % rc
        return line.rstrip("\n")

    def close(self):
        if self.proc:
            try:
                self.proc.stdin.close()
                self.proc.wait(timeout=5)
            except Exception:
                self.proc.kill()
            self.proc = None


def hx(s):
    return s.encode("utf-8").hex()

# ---------------------------------------------------------------- searchers
# Each searcher: f(driver, rng, budget) -> None | dict(input=..., expected=..., observed=..., call=...)
SEARCHERS = {}

def searcher(*prefixes):
    def deco(f):
        for p in prefixes:
            SEARCHERS[p] = f
        return f
    return deco


def dec_strings(rng, n):
    """Decimal-ish strings: edge cases first, then random."""
    M = 2 ** 256
    out = ["", "0", "00", "1", "9", "10", "255", "256", str(M - 1), str(M), str(M + 1), "0" + str(M - 1),
           "000" + str(M), str(10 * (M - 1)), str(M // 10), str(M * 10), "9" * 77, "9" * 78, "9" * 79, "1" + "0" * 77,
           "1" + "0" * 78, "a", "1a", "a1", "-1", "+1", " 1", "1 ", "1_0", "٣", "0x10", "１２"]
    for k in range(1, 80):
        out.append("1" + "0" * k)
        out.append(str(2 ** (3 * k) - 1))
    while len(out) < n:
        ln = rng.choice([1, 2, 3, 10, 40, 76, 77, 78, 79, 80])
        s = "".join(rng.choice("0123456789") for _ in range(ln))
        if rng.random() < 0.3:
            s = "0" * rng.randint(1, 5) + s
        if rng.random() < 0.1:
            pos = rng.randint(0, len(s))
            s = s[:pos] + rng.choice("a_ -+x") + s[pos:]
        out.append(s)
    return out[:n]


def spec_u256_from_str(s):
    """C11 / contracts/num.vc: Ok(v) iff non-empty, all ASCII digits, value < 2^256."""
    if len(s) > 0 and all("0" <= c <= "9" for c in s) and int(s) < 2 ** 256:
        return "ok %064x" % int(s)
    return "err"


@searcher("num/FromStr for U256::from_str")
def search_u256_from_str(drv, rng, budget):
    for s in dec_strings(rng, budget):
        got = drv.call("u256_from_str", hx(s))
        exp = spec_u256_from_str(s)
        if got.split(" ")[0] != exp.split(" ")[0] or (exp.startswith("ok") and got != exp):
            return {"call": "<U256 as FromStr>::from_str", "input": s, "expected": exp, "observed": got}
    return None


def run_bounded(names, seed, budget=600, drv=None):
    """Bounded stand-ins (never counted as proved): run the named searchers against the real crate.
    Returns (results, build_error). results: list of dicts {searcher, witness|None, cases, wall_s, bound}."""
    import inspect
    own = drv is None
    if own:
        drv = Driver()
        if not drv.build():
            return [], "replay driver does not build against the current tree:\n" + drv.build_log
    out = []
    try:
        for nm in names:
            f = SEARCHERS[nm]
            t0 = time.time()
            drv.n_calls = 0
            try:
                if "obligation" in inspect.signature(f).parameters:
                    w = f(drv, random.Random(seed), budget, obligation="")
                else:
                    w = f(drv, random.Random(seed), budget)
            except Exception as e:     # a broken searcher must never raise an alarm
                out.append({"searcher": nm, "witness": None, "error": repr(e), "cases": drv.n_calls, "wall_s": round(time.time() - t0, 2), "bound": (f.__doc__ or "").strip()})
                continue
            out.append({"searcher": nm, "witness": w, "cases": drv.n_calls, "wall_s": round(time.time() - t0, 2), "bound": (f.__doc__ or "").strip()})
    finally:
        if own:
            drv.close()
    return out, None


def find_witness(obligation, seed, budget=3000):
    """obligation: 'unit/fn-label/kind: ...'.  Returns (witness_or_None, note)."""
    key = obligation.split(": ")[0]
    key = "/".join(key.split("/")[:2])
    f = None
    for p, fn in SEARCHERS.items():
        if key == p or key.startswith(p):
            f = fn
            break
    if f is None:
        return None, "no witness searcher registered for %s" % key
    drv = Driver()
    if not drv.build():
        return None, "replay driver does not build against the current tree:\n" + drv.build_log
    try:
        import inspect
        if "obligation" in inspect.signature(f).parameters:
            w = f(drv, random.Random(seed), budget, obligation=obligation)
        else:
            w = f(drv, random.Random(seed), budget)
    finally:
        drv.close()
    return w, ("witness found" if w else "searched %d inputs, none disagrees" % budget)


# ---------------------------------------------------------------- C08 fold
F_ORDER_SENSITIVE = """
fn f(e: u32, acc: u32) -> u32 {
    let prod: u64 = jet::multiply_32(acc, 31);
    let (hi, lo): (u32, u32) = <u64>::into(prod);
    let (carry, sum): (bool, u32) = jet::add_32(lo, e);
    sum
}
"""

def spec_fold(es, init):
    acc = init
    for e in es:
        acc = (acc * 31 + e) % 2 ** 32
    return acc


def fold_program(bound, es, init, via_witness):
    exp = spec_fold(es, init)
    lst = "list![%s]" % ", ".join(str(e) for e in es)
    if via_witness:
        src = F_ORDER_SENSITIVE + "fn main() {\n    let r: u32 = fold::<f, %d>(witness::LIST, %d);\n    assert!(jet::eq_32(r, %d));\n}\n" % (bound, init, exp)
        wit = "mod witness { const LIST: List<u32, %d> = %s; }" % (bound, lst)
    else:
        src = F_ORDER_SENSITIVE + "fn main() {\n    let l: List<u32, %d> = %s;\n    let r: u32 = fold::<f, %d>(l, %d);\n    assert!(jet::eq_32(r, %d));\n}\n" % (bound, lst, bound, init, exp)
        wit = ""
    return src, wit, exp


@searcher("fold/list_fold")
def search_fold(drv, rng, budget):
    """every bound 2..256, every length < bound (sampled for the large bounds), literal and witness lists"""
    n = 0
    for bound in (2, 4, 8, 16, 32, 64, 128, 256):
        lens = list(range(bound)) if bound <= 32 else sorted(set([0, 1, 2, bound // 2 - 1, bound // 2, bound // 2 + 1, bound - 2, bound - 1] + [rng.randrange(bound) for _ in range(6)]))
        for k in lens:
            es = [rng.randrange(1, 2 ** 32) for _ in range(k)]
            init = rng.randrange(2 ** 32)
            for via_witness in (False, True):
                src, wit, exp = fold_program(bound, es, init, via_witness)
                got = drv.call("run", hx(src), hx(""), hx(wit), "0")
                n += 1
                if got != "ok":
                    return {"call": "fold::<f, %d> over %d elements (%s list)" % (bound, k, "witness" if via_witness else "literal"),
                            "input": {"bound": bound, "elements": es, "init": init, "program": src, "witness": wit},
                            "op": ["run", hx(src), hx(""), hx(wit), "0"],
                            "expected": "ok", "observed": got}
                if n >= budget:
                    return None
    return None


# ---------------------------------------------------------------- C09 for_while
FW_HELPERS = """
fn add32(a: u32, b: u32) -> u32 { let (c, s): (bool, u32) = jet::add_32(a, b); s }
fn mix(acc: u32, i: u32) -> u32 {
    let prod: u64 = jet::multiply_32(acc, 31);
    let (hi, lo): (u32, u32) = <u64>::into(prod);
    add32(lo, i)
}
fn to32_1(b: u1) -> u32 { jet::left_pad_low_1_32(b) }
fn to32_2(x: u2) -> u32 { let (h, l): (u1, u1) = <u2>::into(x); let hh: u32 = to32_1(h); add32(add32(hh, hh), to32_1(l)) }
fn to32_4(x: u4) -> u32 { let (h, l): (u2, u2) = <u4>::into(x); let hh: u32 = to32_2(h); let h2: u32 = add32(hh, hh); add32(add32(h2, h2), to32_2(l)) }
fn to32_8(x: u8) -> u32 { jet::left_pad_low_8_32(x) }
fn to32_16(x: u16) -> u32 { jet::left_pad_low_16_32(x) }
"""

def spec_for_while(width, init, exit_at):
    """order-recording body: acc' = acc*31 + i; Left(acc') when i == exit_at, else Right(acc')"""
    acc = init
    for i in range(2 ** width):
        acc = (acc * 31 + i) % 2 ** 32
        if i == exit_at:
            return ("Left", acc)
    return ("Right", acc)


def for_while_program(width, init, exit_at, panic_after_exit=False):
    side, val = spec_for_while(width, init, exit_at)
    # with panic_after_exit the body fails when it is evaluated for a counter beyond the exit point:
    # "returns the first Left WITHOUT evaluating any later iteration"
    guard = "    assert!(jet::le_32(i32, ctx));\n" if panic_after_exit else ""
    body = """
fn body(acc: u32, ctx: u32, i: u%d) -> Either<u32, u32> {
    let i32: u32 = to32_%d(i);
%s    let mixed: u32 = mix(acc, i32);
    match jet::eq_32(i32, ctx) {
        true => Left(mixed),
        false => Right(mixed),
    }
}
""" % (width, width, guard)
    if side == "Left":
        arms = "        Left(b: u32) => assert!(jet::eq_32(b, %d)),\n        Right(a: u32) => panic!(),\n" % val
    else:
        arms = "        Left(b: u32) => panic!(),\n        Right(a: u32) => assert!(jet::eq_32(a, %d)),\n" % val
    main = "fn main() {\n    let r: Either<u32, u32> = for_while::<body>(%d, %d);\n    match r {\n%s    }\n}\n" % (init, exit_at, arms)
    return FW_HELPERS + body + main


@searcher("forwhile/for_while")
def search_for_while(drv, rng, budget):
    """counter widths 1, 2, 4, 8: every exit iteration for widths <= 4, sampled for 8, and no exit; width 16: exits at 0,1,3,255,256,257 (no-exit run only with VERIF_TIER=thorough); each also with a body that fails after the exit point"""
    widths = [1, 2, 4, 8, 16]
    n = 0
    for w in widths:
        top = 2 ** w
        exits = list(range(top)) if w <= 4 else sorted(set([0, 1, 2, top // 2 - 1, top // 2, top - 2, top - 1] + [rng.randrange(top) for _ in range(4 if w == 8 else 1)]))
        if w == 16:
            exits = [0, 1, 3, 255, 256, 257]
        for e in exits + ([2 ** 20] if (w < 16 or os.environ.get("VERIF_TIER") == "thorough") else []):
            init = rng.randrange(2 ** 32)
            for pae in (False, True):
                if pae and e >= top:
                    continue
                src = for_while_program(w, init, e, pae)
                got = drv.call("run", hx(src), hx(""), hx(""), "0")
                n += 1
                if got != "ok":
                    return {"call": "for_while::<body> with a u%d counter, exit at iteration %s%s" % (w, e if e < top else "never", ", body fails after the exit point" if pae else ""),
                            "input": {"width": w, "init": init, "exit_at": e, "body_fails_after_exit": pae, "program": src},
                            "op": ["run", hx(src), hx(""), hx(""), "0"], "expected": "ok", "observed": got}
    return None


# ---------------------------------------------------------------- C10 scoping / shadowing
class ScopeGen:
    """Random straight-line programs over u8 with nested blocks, shadowing lets, tuple/array/ignore patterns and
    match arms, together with a reference evaluation by a Python environment (innermost, most recent binding wins)."""
    def __init__(self, rng):
        self.rng = rng
        self.names = ["a", "b", "c", "d"]
        self.lit = 0

    def fresh_lit(self):
        self.lit = (self.lit * 7 + 11) % 251
        return self.lit

    def expr(self, env, depth):
        """returns (text, value) of a u8 expression"""
        r = self.rng.random()
        vis = list(env.keys())
        if vis and r < 0.45:
            x = self.rng.choice(vis)
            return x, env[x]
        if depth > 0 and r < 0.75:
            return self.block(env, depth - 1)
        if depth > 0 and r < 0.85 and vis:
            # match on a bool literal: only the taken arm's bindings matter, arms see the outer env
            x = self.rng.choice(vis)
            l, lv = self.expr(dict(env), depth - 1)
            rr, rv = self.expr(dict(env), depth - 1)
            cond = self.rng.random() < 0.5
            return "match %s { true => %s, false => %s, }" % ("true" if cond else "false", l, rr), (lv if cond else rv)
        if depth > 0 and r < 0.93:
            # match on an Either: each arm binds a name (possibly shadowing an outer one, possibly at another type);
            # only the taken arm's binding exists, and only inside that arm
            x = self.rng.choice(self.names)
            y = self.rng.choice(self.names)      # the two arms may bind different names
            left = self.rng.random() < 0.5
            pay = self.fresh_lit()
            envl = dict(env); envr = dict(env)
            envl.pop(x, None)          # x: u16 inside the left arm: not usable as u8 there
            envr[y] = pay              # y: u8 inside the right arm (its value only matters when that arm is taken)
            l, lv = self.expr(envl, depth - 1)
            rr, rv = self.expr(envr, depth - 1)
            scrut = ("Left(%d)" % (pay * 3)) if left else ("Right(%d)" % pay)
            txt = "match { let e: Either<u16, u8> = %s; e } { Left(%s: u16) => %s, Right(%s: u8) => %s, }" % (scrut, x, l, y, rr)
            return txt, (lv if left else rv)
        v = self.fresh_lit()
        return str(v), v

    def block(self, env, depth):
        inner = dict(env)
        stmts = []
        for _ in range(self.rng.randint(1, 3)):
            stmts.append(self.let(inner, depth))
        e, v = self.expr(inner, depth)
        return "{ " + " ".join(stmts) + " " + e + " }", v

    def let(self, env, depth):
        """emit a let; updates env AFTER evaluating the right-hand side (rhs sees only earlier bindings)"""
        k = self.rng.random()
        if k < 0.5:
            x = self.rng.choice(self.names)
            e, v = self.expr(env, depth)
            env[x] = v
            return "let %s: u8 = %s;" % (x, e)
        if k < 0.8:
            xs = self.rng.sample(self.names, 2)
            e1, v1 = self.expr(env, depth); e2, v2 = self.expr(env, depth)
            if self.rng.random() < 0.3:
                env[xs[0]] = v1
                return "let (%s, _): (u8, u8) = (%s, %s);" % (xs[0], e1, e2)
            env[xs[0]] = v1; env[xs[1]] = v2
            return "let (%s, %s): (u8, u8) = (%s, %s);" % (xs[0], xs[1], e1, e2)
        xs = self.rng.sample(self.names, 3)
        es = [self.expr(env, depth) for _ in range(3)]
        for x, (_, v) in zip(xs, es):
            env[x] = v
        return "let [%s, %s, %s]: [u8; 3] = [%s, %s, %s];" % (xs[0], xs[1], xs[2], es[0][0], es[1][0], es[2][0])

    def program(self):
        env = {}
        lines = []
        for _ in range(self.rng.randint(2, 6)):
            lines.append("    " + self.let(env, 2))
        for x, v in env.items():
            lines.append("    assert!(jet::eq_8(%s, %d));" % (x, v))
        # a function body sees only its parameters
        fn = "fn pick(a: u8, b: u8) -> u8 { let c: u8 = a; b }\n"
        if "a" in env and "b" in env:
            lines.append("    assert!(jet::eq_8(pick(%d, %s), %d));" % (7, "b", env["b"]))
        return fn + "fn main() {\n" + "\n".join(lines) + "\n}\n"


@searcher("lookup/")
def search_scoping(drv, rng, budget):
    for n in range(min(budget, 1500)):
        g = ScopeGen(rng)
        src = g.program()
        got = drv.call("run", hx(src), hx(""), hx(""), "0")
        if got != "ok":
            return {"call": "CompiledProgram::new + Bit Machine on a shadowing program", "input": {"program": src},
                    "op": ["run", hx(src), hx(""), hx(""), "0"], "expected": "ok", "observed": got}
    return None


# ---------------------------------------------------------------- C11 / C06 literals (value.rs)
UINT_BITS = {"u1": 1, "u2": 2, "u4": 4, "u8": 8, "u16": 16, "u32": 32, "u64": 64, "u128": 128, "u256": 256}

def show_uint(v, bits):
    """UIntValue as Display prints it: decimal up to 64 bits, 0x + zero-padded hex for u128/u256"""
    return str(v) if bits <= 64 else "0x%0*x" % (bits // 4, v)


def spec_parse_hex(digits, ty):
    """contracts/literal.vc parse_hexadecimal: (expected, strict) - strict False when the contract leaves the case open"""
    if ty in UINT_BITS:
        bits = UINT_BITS[ty]
        if len(digits) > 0 and bits >= 8 and len(digits) * 4 == bits:
            return "ok " + show_uint(int(digits, 16), bits), True
        return "err", True
    n = int(ty[len("[u8; "):-1])
    if len(digits) == 2 * n and len(digits) > 0:
        return "ok 0x" + digits.lower(), True
    if len(digits) == 0 and n == 0:
        return None, False          # `[u8; 0] = 0x_`: the contract does not say
    return "err", True


@searcher("literal/Value::parse_hexadecimal")
def search_parse_hex(drv, rng, budget, obligation=""):
    tys = list(UINT_BITS) + ["[u8; %d]" % n for n in (0, 1, 2, 3, 4, 32, 33, 9223372036854775807, 9223372036854775808, 18446744073709551615)]
    if "/overflow" in obligation:
        tys = [t for t in tys if t.startswith("[")][::-1] + [t for t in tys if not t.startswith("[")]
    cases = []
    for ty in tys:
        for ln in (0, 1, 2, 3, 4, 6, 8, 16, 32, 64, 66):
            cases.append((ty, "".join(rng.choice("0123456789abcdefABCDEF") for _ in range(ln))))
    for ty, digits in cases:
        exp, strict = spec_parse_hex(digits, ty)
        if not strict:
            continue
        got = drv.call("parse_hex", hx(digits), hx(ty))
        ok = (got.lower() == exp.lower()) if exp.startswith("ok") else got == "err"
        if "/overflow" in obligation and "overflow" not in got:
            continue
        if not ok:
            return {"call": "Value::parse_hexadecimal", "input": {"digits": digits, "type": ty}, "op": ["parse_hex", hx(digits), hx(ty)],
                    "expected": exp, "observed": got}
    return None


@searcher("literal/UIntValue::parse_decimal")
def search_parse_dec(drv, rng, budget):
    for ty, bits in UINT_BITS.items():
        M = 2 ** bits
        cands = ["", "0", "00", "1", str(M - 1), str(M), str(M + 1), "0" * 5 + str(M - 1), str(M * 10), str(M // 10), "9" * 80]
        cands += [str(rng.randrange(M)) for _ in range(20)] + [str(10 ** k) for k in range(0, 80, 7)]
        for d in cands:
            v = int(d) if d else None
            exp = "ok " + show_uint(v, bits) if (d and v < M) else "err"
            got = drv.call("parse_dec", hx(d), hx(ty))
            if got.lower() != exp.lower():
                return {"call": "UIntValue::parse_decimal", "input": {"digits": d, "type": ty}, "op": ["parse_dec", hx(d), hx(ty)],
                        "expected": exp, "observed": got}
    return None
