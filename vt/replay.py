"""Witness search and replay against the REAL crate.

Verus gives no counterexample.  When an obligation fails, the check looks for a concrete
input on which the real function (called through the driver binary built from
/verif/replay, which links /repo) disagrees with an executable transcription of the
specification (the Python functions below mirror the spec functions of speclib/*.rs).
"""
import os, subprocess, json, random, time
from . import gen

ROOT = gen.ROOT
TARGET = os.path.join(os.environ.get("VERIF_OUT") or os.path.join(ROOT, "out"), "replay-target")
CRATE = os.environ.get("VERIF_REPLAY_CRATE") or os.path.join(ROOT, "replay")     # tools/par_matrix.sh points this at a copy whose path dependency is a scratch copy of /repo
BIN = os.path.join(TARGET, "release", "verif-replay")


class Driver:
    def __init__(self):
        self.proc = None
        self.build_log = ""

    def build(self):
        env = dict(os.environ)
        env["CARGO_NET_OFFLINE"] = "true"
        env["CARGO_TARGET_DIR"] = TARGET
        if os.environ.get("VERIF_HOOKS", "1") == "1":
            env["RUSTFLAGS"] = (env.get("RUSTFLAGS", "") + " --cfg simfony_verif").strip()
        p = subprocess.run(["cargo", "build", "--release", "--offline"], cwd=CRATE,
                           stdout=subprocess.PIPE, stderr=subprocess.STDOUT, text=True, env=env)
        self.build_log = p.stdout[-3000:]
        return p.returncode == 0

    def start(self):
        # binary pipes: a '\r' inside an answer (error messages quote CRLF sources) must not be taken for a line end
        self.proc = subprocess.Popen([BIN], stdin=subprocess.PIPE, stdout=subprocess.PIPE, bufsize=0)

    n_calls = 0
    seen = None
    nontrivial = None
    samples = None

    def reset_stats(self):
        self.n_calls = 0; self.seen = set(); self.nontrivial = set(); self.samples = []

    def _note(self, req, resp):
        if self.seen is None:
            self.reset_stats()
        h = hash(req)
        self.seen.add(h)
        # non-trivial: the real crate did something other than plainly accept (an error message, a value, a shape ...)
        if resp != "ok":
            self.nontrivial.add(h)
            if len(self.samples) < 3:
                def dec(x):
                    try:
                        return bytes.fromhex(x).decode("utf-8") if len(x) > 1 and len(x) % 2 == 0 else x
                    except Exception:
                        return x
                self.samples.append({"request": [dec(x)[:300] for x in req.split("\t")], "response": " ".join(dec(x)[:300] for x in resp.split(" "))[:400]})

    panic_log = None

    def call(self, op, *args):
        r = self._call(op, *args)
        self._note("\t".join([op] + list(args)), r)
        if self.panic_log is not None and (r.startswith("panic") or r.startswith("died")):
            self.panic_log.append(([op] + list(args), r))
        return r

    def _call(self, op, *args):
        self.n_calls += 1
        if self.proc is None or self.proc.poll() is not None:
            self.start()
        self.proc.stdin.write(("\t".join([op] + list(args)) + "\n").encode("utf-8"))
        self.proc.stdin.flush()
        line = self.proc.stdout.readline()
        if not line:
            # driver died (abort / stack overflow)
            rc = self.proc.wait()
            self.proc = None
            return "died rc=%s" % rc
        return line.decode("utf-8", "replace").rstrip("\n").replace("\r", " ")

    def close(self):
        if self.proc:
            try:
                self.proc.stdin.close()
                self.proc.wait(timeout=5)
            except Exception:
                self.proc.kill()
            self.proc = None


def hx(s):
    return s.encode("utf-8").hex()

# ---------------------------------------------------------------- searchers
# Each searcher: f(driver, rng, budget) -> None | dict(input=..., expected=..., observed=..., call=...)
SEARCHERS = {}

def searcher(*prefixes):
    def deco(f):
        for p in prefixes:
            SEARCHERS[p] = f
        return f
    return deco


def dec_strings(rng, n):
    """Decimal-ish strings: edge cases first, then random."""
    M = 2 ** 256
    out = ["", "0", "00", "1", "9", "10", "255", "256", str(M - 1), str(M), str(M + 1), "0" + str(M - 1),
           "000" + str(M), str(10 * (M - 1)), str(M // 10), str(M * 10), "9" * 77, "9" * 78, "9" * 79, "1" + "0" * 77,
           "1" + "0" * 78, "a", "1a", "a1", "-1", "+1", " 1", "1 ", "1_0", "٣", "0x10", "１２"]
    for k in range(1, 80):
        out.append("1" + "0" * k)
        out.append(str(2 ** (3 * k) - 1))
    while len(out) < n:
        ln = rng.choice([1, 2, 3, 10, 40, 76, 77, 78, 79, 80])
        s = "".join(rng.choice("0123456789") for _ in range(ln))
        if rng.random() < 0.3:
            s = "0" * rng.randint(1, 5) + s
        if rng.random() < 0.1:
            pos = rng.randint(0, len(s))
            s = s[:pos] + rng.choice("a_ -+x") + s[pos:]
        out.append(s)
    return out[:n]


def spec_u256_from_str(s):
    """C11 / contracts/num.vc: Ok(v) iff non-empty, all ASCII digits, value < 2^256."""
    if len(s) > 0 and all("0" <= c <= "9" for c in s) and int(s) < 2 ** 256:
        return "ok %064x" % int(s)
    return "err"


@searcher("num/FromStr for U256::from_str")
def search_u256_from_str(drv, rng, budget):
    for s in dec_strings(rng, budget):
        got = drv.call("u256_from_str", hx(s))
        exp = spec_u256_from_str(s)
        if got.split(" ")[0] != exp.split(" ")[0] or (exp.startswith("ok") and got != exp):
            return {"call": "<U256 as FromStr>::from_str", "input": s, "expected": exp, "observed": got}
    return None


def run_bounded(names, seed, budget=600, drv=None):
    """Bounded stand-ins (never counted as proved): run the named searchers against the real crate.
    Returns (results, build_error). results: list of dicts {searcher, witness|None, cases, wall_s, bound}."""
    import inspect
    own = drv is None
    if own:
        drv = Driver()
        if not drv.build():
            return [], "replay driver does not build against the current tree:\n" + drv.build_log
    out = []
    try:
        for nm in names:
            f = SEARCHERS[nm]
            t0 = time.time()
            drv.reset_stats()
            try:
                if "obligation" in inspect.signature(f).parameters:
                    w = f(drv, random.Random(seed), budget, obligation="")
                else:
                    w = f(drv, random.Random(seed), budget)
            except Exception as e:     # a broken searcher must never raise an alarm
                out.append({"searcher": nm, "witness": None, "error": repr(e), "cases": drv.n_calls, "wall_s": round(time.time() - t0, 2), "bound": (f.__doc__ or "").strip()})
                continue
            out.append({"searcher": nm, "witness": w, "cases": drv.n_calls, "distinct": len(drv.seen), "distinct_nontrivial": len(drv.nontrivial),
                        "samples": list(drv.samples), "wall_s": round(time.time() - t0, 2), "bound": (f.__doc__ or "").strip()})
    finally:
        if own:
            drv.close()
    return out, None


def find_witness(obligation, seed, budget=3000):
    """obligation: 'unit/fn-label/kind: ...'.  Returns (witness_or_None, note)."""
    key = obligation.split(": ")[0]
    key = "/".join(key.split("/")[:2])
    f = None
    for p, fn in SEARCHERS.items():
        if key == p or key.startswith(p):
            f = fn
            break
    if f is None:
        return None, "no witness searcher registered for %s" % key
    drv = Driver()
    if not drv.build():
        return None, "replay driver does not build against the current tree:\n" + drv.build_log
    try:
        import inspect
        if "obligation" in inspect.signature(f).parameters:
            w = f(drv, random.Random(seed), budget, obligation=obligation)
        else:
            w = f(drv, random.Random(seed), budget)
    finally:
        drv.close()
    return w, ("witness found" if w else "searched %d inputs, none disagrees" % budget)


# ---------------------------------------------------------------- C08 fold
F_ORDER_SENSITIVE = """
fn f(e: u32, acc: u32) -> u32 {
    let prod: u64 = jet::multiply_32(acc, 31);
    let (hi, lo): (u32, u32) = <u64>::into(prod);
    let (carry, sum): (bool, u32) = jet::add_32(lo, e);
    sum
}
"""

def spec_fold(es, init):
    acc = init
    for e in es:
        acc = (acc * 31 + e) % 2 ** 32
    return acc


def fold_program(bound, es, init, via_witness):
    exp = spec_fold(es, init)
    lst = "list![%s]" % ", ".join(str(e) for e in es)
    if via_witness:
        src = F_ORDER_SENSITIVE + "fn main() {\n    let r: u32 = fold::<f, %d>(witness::LIST, %d);\n    assert!(jet::eq_32(r, %d));\n}\n" % (bound, init, exp)
        wit = "mod witness { const LIST: List<u32, %d> = %s; }" % (bound, lst)
    else:
        src = F_ORDER_SENSITIVE + "fn main() {\n    let l: List<u32, %d> = %s;\n    let r: u32 = fold::<f, %d>(l, %d);\n    assert!(jet::eq_32(r, %d));\n}\n" % (bound, lst, bound, init, exp)
        wit = ""
    return src, wit, exp


@searcher("fold/list_fold")
def search_fold(drv, rng, budget):
    """every bound 2..256, every length < bound (sampled for the large bounds), literal and witness lists"""
    n = 0
    for bound in (2, 4, 8, 16, 32, 64, 128, 256):
        lens = list(range(bound)) if bound <= 32 else sorted(set([0, 1, 2, bound // 2 - 1, bound // 2, bound // 2 + 1, bound - 2, bound - 1] + [rng.randrange(bound) for _ in range(6)]))
        for k in lens:
            es = [rng.randrange(1, 2 ** 32) for _ in range(k)]
            init = rng.randrange(2 ** 32)
            for via_witness in (False, True):
                src, wit, exp = fold_program(bound, es, init, via_witness)
                got = drv.call("run", hx(src), hx(""), hx(wit), "0")
                n += 1
                if got != "ok":
                    return {"call": "fold::<f, %d> over %d elements (%s list)" % (bound, k, "witness" if via_witness else "literal"),
                            "input": {"bound": bound, "elements": es, "init": init, "program": src, "witness": wit},
                            "op": ["run", hx(src), hx(""), hx(wit), "0"],
                            "expected": "ok", "observed": got}
                if n >= budget:
                    return None
    return None


# ---------------------------------------------------------------- C09 for_while
FW_HELPERS = """
fn add32(a: u32, b: u32) -> u32 { let (c, s): (bool, u32) = jet::add_32(a, b); s }
fn mix(acc: u32, i: u32) -> u32 {
    let prod: u64 = jet::multiply_32(acc, 31);
    let (hi, lo): (u32, u32) = <u64>::into(prod);
    add32(lo, i)
}
fn to32_1(b: u1) -> u32 { jet::left_pad_low_1_32(b) }
fn to32_2(x: u2) -> u32 { let (h, l): (u1, u1) = <u2>::into(x); let hh: u32 = to32_1(h); add32(add32(hh, hh), to32_1(l)) }
fn to32_4(x: u4) -> u32 { let (h, l): (u2, u2) = <u4>::into(x); let hh: u32 = to32_2(h); let h2: u32 = add32(hh, hh); add32(add32(h2, h2), to32_2(l)) }
fn to32_8(x: u8) -> u32 { jet::left_pad_low_8_32(x) }
fn to32_16(x: u16) -> u32 { jet::left_pad_low_16_32(x) }
"""

def spec_for_while(width, init, exit_at):
    """order-recording body: acc' = acc*31 + i; Left(acc') when i == exit_at, else Right(acc')"""
    acc = init
    for i in range(2 ** width):
        acc = (acc * 31 + i) % 2 ** 32
        if i == exit_at:
            return ("Left", acc)
    return ("Right", acc)


def for_while_program(width, init, exit_at, panic_after_exit=False):
    side, val = spec_for_while(width, init, exit_at)
    # with panic_after_exit the body fails when it is evaluated for a counter beyond the exit point:
    # "returns the first Left WITHOUT evaluating any later iteration"
    guard = "    assert!(jet::le_32(i32, ctx));\n" if panic_after_exit else ""
    body = """
fn body(acc: u32, ctx: u32, i: u%d) -> Either<u32, u32> {
    let i32: u32 = to32_%d(i);
%s    let mixed: u32 = mix(acc, i32);
    match jet::eq_32(i32, ctx) {
        true => Left(mixed),
        false => Right(mixed),
    }
}
""" % (width, width, guard)
    if side == "Left":
        arms = "        Left(b: u32) => assert!(jet::eq_32(b, %d)),\n        Right(a: u32) => panic!(),\n" % val
    else:
        arms = "        Left(b: u32) => panic!(),\n        Right(a: u32) => assert!(jet::eq_32(a, %d)),\n" % val
    main = "fn main() {\n    let r: Either<u32, u32> = for_while::<body>(%d, %d);\n    match r {\n%s    }\n}\n" % (init, exit_at, arms)
    return FW_HELPERS + body + main


@searcher("forwhile/for_while")
def search_for_while(drv, rng, budget):
    """counter widths 1, 2, 4, 8: every exit iteration for widths <= 4, sampled for 8, and no exit; width 16: exits at 0,1,3,255,256,257 (no-exit run only with VERIF_TIER=thorough); each also with a body that fails after the exit point"""
    widths = [1, 2, 4, 8, 16]
    n = 0
    for w in widths:
        top = 2 ** w
        exits = list(range(top)) if w <= 4 else sorted(set([0, 1, 2, top // 2 - 1, top // 2, top - 2, top - 1] + [rng.randrange(top) for _ in range(4 if w == 8 else 1)]))
        if w == 16:
            exits = [0, 1, 3, 255, 256, 257]
        for e in exits + ([2 ** 20] if (w < 16 or os.environ.get("VERIF_TIER") == "thorough") else []):
            init = rng.randrange(2 ** 32)
            for pae in (False, True):
                if pae and e >= top:
                    continue
                src = for_while_program(w, init, e, pae)
                got = drv.call("run", hx(src), hx(""), hx(""), "0")
                n += 1
                if got != "ok":
                    return {"call": "for_while::<body> with a u%d counter, exit at iteration %s%s" % (w, e if e < top else "never", ", body fails after the exit point" if pae else ""),
                            "input": {"width": w, "init": init, "exit_at": e, "body_fails_after_exit": pae, "program": src},
                            "op": ["run", hx(src), hx(""), hx(""), "0"], "expected": "ok", "observed": got}
    return None


# ---------------------------------------------------------------- C10 scoping / shadowing
class ScopeGen:
    """Random straight-line programs over u8 with nested blocks, shadowing lets, tuple/array/ignore patterns and
    match arms, together with a reference evaluation by a Python environment (innermost, most recent binding wins)."""
    def __init__(self, rng):
        self.rng = rng
        self.names = ["a", "b", "c", "d"]
        self.lit = 0

    def fresh_lit(self):
        self.lit = (self.lit * 7 + 11) % 251
        return self.lit

    def expr(self, env, depth):
        """returns (text, value) of a u8 expression"""
        r = self.rng.random()
        vis = list(env.keys())
        if vis and r < 0.45:
            x = self.rng.choice(vis)
            return x, env[x]
        if depth > 0 and r < 0.75:
            return self.block(env, depth - 1)
        if depth > 0 and r < 0.85 and vis:
            # match on a bool literal: only the taken arm's bindings matter, arms see the outer env
            x = self.rng.choice(vis)
            l, lv = self.expr(dict(env), depth - 1)
            rr, rv = self.expr(dict(env), depth - 1)
            cond = self.rng.random() < 0.5
            return "match %s { true => %s, false => %s, }" % ("true" if cond else "false", l, rr), (lv if cond else rv)
        if depth > 0 and r < 0.93:
            # match on an Either: each arm binds a name (possibly shadowing an outer one, possibly at another type);
            # only the taken arm's binding exists, and only inside that arm
            x = self.rng.choice(self.names)
            y = self.rng.choice(self.names)      # the two arms may bind different names
            left = self.rng.random() < 0.5
            pay = self.fresh_lit()
            envl = dict(env); envr = dict(env)
            envl.pop(x, None)          # x: u16 inside the left arm: not usable as u8 there
            envr[y] = pay              # y: u8 inside the right arm (its value only matters when that arm is taken)
            l, lv = self.expr(envl, depth - 1)
            rr, rv = self.expr(envr, depth - 1)
            scrut = ("Left(%d)" % (pay * 3)) if left else ("Right(%d)" % pay)
            txt = "match { let e: Either<u16, u8> = %s; e } { Left(%s: u16) => %s, Right(%s: u8) => %s, }" % (scrut, x, l, y, rr)
            return txt, (lv if left else rv)
        v = self.fresh_lit()
        return str(v), v

    def block(self, env, depth):
        inner = dict(env)
        stmts = []
        for _ in range(self.rng.randint(1, 3)):
            stmts.append(self.let(inner, depth))
        e, v = self.expr(inner, depth)
        return "{ " + " ".join(stmts) + " " + e + " }", v

    def let(self, env, depth):
        """emit a let; updates env AFTER evaluating the right-hand side (rhs sees only earlier bindings)"""
        k = self.rng.random()
        if k < 0.08:
            # a binding that introduces no name still occupies a slot of the environment
            if self.rng.random() < 0.5:
                e, v = self.expr(env, depth)
                return "let _: u8 = %s;" % e
            return "let _: %s = %d;" % (self.rng.choice(["u16", "u32", "(u8, u16)", "[u8; 0]", "()"]).replace("(u8, u16)", "u64").replace("[u8; 0]", "u1").replace("()", "u128"), self.rng.randint(0, 1))
        if k < 0.14:
            # a name rebound at another width: not usable as u8 any more
            x = self.rng.choice(self.names)
            env.pop(x, None)
            return "let %s: u16 = %d;" % (x, 256 + self.fresh_lit())
        if k < 0.17:
            # wide tuple / array patterns (4-7 components): the split into nested products differs from a right-nested chain from 4 on
            n = self.rng.randint(4, 7)
            slots = [None] * n
            for nm, pos in zip(self.rng.sample(self.names, min(4, n)), self.rng.sample(range(n), min(4, n))):
                slots[pos] = nm
            es = [self.expr(env, 0) for _ in range(n)]
            for nm, (_, v) in zip(slots, es):
                if nm: env[nm] = v
            pat = ", ".join(x or "_" for x in slots); vals = ", ".join(e for e, _ in es)
            if self.rng.random() < 0.5:
                return "let (%s): (%s) = (%s);" % (pat, ", ".join(["u8"] * n), vals)
            return "let [%s]: [u8; %d] = [%s];" % (pat, n, vals)
        if k < 0.22:
            # nested tuple pattern with an ignored component
            xs = self.rng.sample(self.names, 2)
            e1, v1 = self.expr(env, depth); e2, v2 = self.expr(env, depth); e3, v3 = self.expr(env, depth)
            form = self.rng.randrange(3)
            if form == 0:
                env[xs[0]] = v1; env[xs[1]] = v3
                return "let ((%s, _), %s): ((u8, u8), u8) = ((%s, %s), %s);" % (xs[0], xs[1], e1, e2, e3)
            if form == 1:
                env[xs[0]] = v2; env[xs[1]] = v3
                return "let (_, (%s, %s)): (u8, (u8, u8)) = (%s, (%s, %s));" % (xs[0], xs[1], e1, e2, e3)
            env[xs[0]] = v2
            return "let [_, %s, _]: [u8; 3] = [%s, %s, %s];" % (xs[0], e1, e2, e3)
        if k < 0.5:
            x = self.rng.choice(self.names)
            e, v = self.expr(env, depth)
            env[x] = v
            return "let %s: u8 = %s;" % (x, e)
        if k < 0.8:
            xs = self.rng.sample(self.names, 2)
            e1, v1 = self.expr(env, depth); e2, v2 = self.expr(env, depth)
            if self.rng.random() < 0.3:
                env[xs[0]] = v1
                return "let (%s, _): (u8, u8) = (%s, %s);" % (xs[0], e1, e2)
            env[xs[0]] = v1; env[xs[1]] = v2
            return "let (%s, %s): (u8, u8) = (%s, %s);" % (xs[0], xs[1], e1, e2)
        xs = self.rng.sample(self.names, 3)
        es = [self.expr(env, depth) for _ in range(3)]
        for x, (_, v) in zip(xs, es):
            env[x] = v
        return "let [%s, %s, %s]: [u8; 3] = [%s, %s, %s];" % (xs[0], xs[1], xs[2], es[0][0], es[1][0], es[2][0])

    def program(self):
        env = {}
        lines = []
        for _ in range(self.rng.randint(2, 6)):
            lines.append("    " + self.let(env, 2))
        for x, v in env.items():
            lines.append("    assert!(jet::eq_8(%s, %d));" % (x, v))
        # a function body sees only its parameters
        fn = "fn pick(a: u8, b: u8) -> u8 { let c: u8 = a; b }\n"
        if "a" in env and "b" in env:
            lines.append("    assert!(jet::eq_8(pick(%d, %s), %d));" % (7, "b", env["b"]))
        return fn + "fn main() {\n" + "\n".join(lines) + "\n}\n"


@searcher("lookup/")
def search_scoping(drv, rng, budget):
    for n in range(min(budget, 1500)):
        g = ScopeGen(rng)
        src = g.program()
        got = drv.call("run", hx(src), hx(""), hx(""), "0")
        if got != "ok":
            return {"call": "CompiledProgram::new + Bit Machine on a shadowing program", "input": {"program": src},
                    "op": ["run", hx(src), hx(""), hx(""), "0"], "expected": "ok", "observed": got}
    return None


# ---------------------------------------------------------------- C11 / C06 literals (value.rs)
UINT_BITS = {"u1": 1, "u2": 2, "u4": 4, "u8": 8, "u16": 16, "u32": 32, "u64": 64, "u128": 128, "u256": 256}

def show_uint(v, bits):
    """UIntValue as Display prints it: decimal up to 64 bits, 0x + zero-padded hex for u128/u256"""
    return str(v) if bits <= 64 else "0x%0*x" % (bits // 4, v)


def spec_parse_hex(digits, ty):
    """contracts/literal.vc parse_hexadecimal: (expected, strict) - strict False when the contract leaves the case open"""
    if ty in UINT_BITS:
        bits = UINT_BITS[ty]
        if len(digits) > 0 and bits >= 8 and len(digits) * 4 == bits:
            return "ok " + show_uint(int(digits, 16), bits), True
        return "err", True
    n = int(ty[len("[u8; "):-1])
    if len(digits) == 2 * n and len(digits) > 0:
        return "ok 0x" + digits.lower(), True
    if len(digits) == 0 and n == 0:
        return None, False          # `[u8; 0] = 0x_`: the contract does not say
    return "err", True


@searcher("literal/Value::parse_hexadecimal")
def search_parse_hex(drv, rng, budget, obligation=""):
    tys = list(UINT_BITS) + ["[u8; %d]" % n for n in (0, 1, 2, 3, 4, 32, 33, 9223372036854775807, 9223372036854775808, 18446744073709551615)]
    if "/overflow" in obligation:
        tys = [t for t in tys if t.startswith("[")][::-1] + [t for t in tys if not t.startswith("[")]
    cases = []
    for ty in tys:
        for ln in (0, 1, 2, 3, 4, 6, 8, 16, 32, 64, 66):
            cases.append((ty, "".join(rng.choice("0123456789abcdefABCDEF") for _ in range(ln))))
    for ty, digits in cases:
        exp, strict = spec_parse_hex(digits, ty)
        if not strict:
            continue
        got = drv.call("parse_hex", hx(digits), hx(ty))
        ok = (got.lower() == exp.lower()) if exp.startswith("ok") else got == "err"
        if "/overflow" in obligation and "overflow" not in got:
            continue
        if not ok:
            return {"call": "Value::parse_hexadecimal", "input": {"digits": digits, "type": ty}, "op": ["parse_hex", hx(digits), hx(ty)],
                    "expected": exp, "observed": got}
    return None


@searcher("literal/UIntValue::parse_decimal")
def search_parse_dec(drv, rng, budget):
    for ty, bits in UINT_BITS.items():
        M = 2 ** bits
        cands = ["", "0", "00", "1", str(M - 1), str(M), str(M + 1), "0" * 5 + str(M - 1), str(M * 10), str(M // 10), "9" * 80]
        cands += [str(rng.randrange(M)) for _ in range(20)] + [str(10 ** k) for k in range(0, 80, 7)]
        for d in cands:
            v = int(d) if d else None
            exp = "ok " + show_uint(v, bits) if (d and v < M) else "err"
            got = drv.call("parse_dec", hx(d), hx(ty))
            if got.lower() != exp.lower():
                return {"call": "UIntValue::parse_decimal", "input": {"digits": d, "type": ty}, "op": ["parse_dec", hx(d), hx(ty)],
                        "expected": exp, "observed": got}
    return None


# ---------------------------------------------------------------- C07 structural layout
def npo2(n):
    p = 1
    while p < n:
        p *= 2
    return p

def split_at(n):
    """documented rule: the right part holds the largest power of two strictly below n"""
    return n - npo2(n) // 2

UNIT = ("1",)
def t_sum(a, b): return ("+", a, b)
def t_prod(a, b): return ("*", a, b)
BIT = t_sum(UNIT, UNIT)

def t_word(bits):
    return BIT if bits == 1 else t_prod(t_word(bits // 2), t_word(bits // 2))

def t_seq(ts):
    n = len(ts)
    if n == 0: return UNIT
    if n == 1: return ts[0]
    h = split_at(n)
    return t_prod(t_seq(ts[:h]), t_seq(ts[h:]))

class Ty:
    """Simfony type: kind in uN/bool/option/either/tuple/array/list"""
    def __init__(self, kind, *args): self.kind, self.args = kind, args
    def text(self):
        k, a = self.kind, self.args
        if k == "uint": return "u%d" % a[0]
        if k == "bool": return "bool"
        if k == "option": return "Option<%s>" % a[0].text()
        if k == "either": return "Either<%s, %s>" % (a[0].text(), a[1].text())
        if k == "tuple": return "(" + ", ".join(t.text() for t in a[0]) + ("," if len(a[0]) == 1 else "") + ")"
        if k == "array": return "[%s; %d]" % (a[0].text(), a[1])
        if k == "list": return "List<%s, %d>" % (a[0].text(), a[1])
    def layout(self):
        k, a = self.kind, self.args
        if k == "uint": return t_word(a[0])
        if k == "bool": return BIT
        if k == "option": return t_sum(UNIT, a[0].layout())
        if k == "either": return t_sum(a[0].layout(), a[1].layout())
        if k == "tuple": return t_seq([t.layout() for t in a[0]])
        if k == "array": return t_seq([a[0].layout()] * a[1])
        if k == "list":
            e, bound = a
            if bound == 2: return t_sum(UNIT, e.layout())
            half = bound // 2
            return t_prod(t_sum(UNIT, t_seq([e.layout()] * half)), Ty("list", e, half).layout())

def word_bits(t):
    if t == BIT: return 1
    if t[0] == "*" and t[1] == t[2]:
        k = word_bits(t[1])
        return 2 * k if k else None
    return None

def show_final(t, top=True):
    """how simplicity-lang prints a finalized type"""
    if t == UNIT: return "1"
    wb = word_bits(t)
    if wb: return "2" if wb == 1 else "2^%d" % wb
    if t[0] == "+" and t[1] == UNIT:
        return show_final(t[2], False) + "?"
    s = show_final(t[1], False) + (" + " if t[0] == "+" else " × ") + show_final(t[2], False)
    return s if top else "(" + s + ")"

def gen_type(rng, depth):
    r = rng.random()
    if depth == 0 or r < 0.3:
        return Ty("uint", rng.choice([1, 2, 4, 8, 16, 32, 64, 128, 256])) if rng.random() < 0.8 else Ty("bool")
    if r < 0.4: return Ty("option", gen_type(rng, depth - 1))
    if r < 0.5: return Ty("either", gen_type(rng, depth - 1), gen_type(rng, depth - 1))
    if r < 0.7: return Ty("tuple", [gen_type(rng, depth - 1) for _ in range(rng.choice([0, 1, 2, 3, 4, 5, 6, 7, 9]))])
    if r < 0.88: return Ty("array", gen_type(rng, depth - 1), rng.choice([0, 1, 2, 3, 4, 5, 6, 7, 8, 9, 11, 12, 13, 14, 15, 17, 19, 20, 24, 28]))
    return Ty("list", gen_type(rng, depth - 1), rng.choice([2, 4, 8, 16, 32]))

def gen_value(rng, ty):
    """returns (text, compact bits) of a random value of the type"""
    k, a = ty.kind, ty.args
    if k == "uint":
        v = rng.choice([0, 1, 2 ** a[0] - 1, rng.randrange(2 ** a[0])])
        return str(v), format(v, "0%db" % a[0])
    if k == "bool":
        b = rng.random() < 0.5
        return ("true" if b else "false"), ("1" if b else "0")
    if k == "option":
        if rng.random() < 0.4: return "None", "0"
        t, b = gen_value(rng, a[0]); return "Some(%s)" % t, "1" + b
    if k == "either":
        if rng.random() < 0.5:
            t, b = gen_value(rng, a[0]); return "Left(%s)" % t, "0" + b
        t, b = gen_value(rng, a[1]); return "Right(%s)" % t, "1" + b
    if k == "tuple":
        vs = [gen_value(rng, t) for t in a[0]]
        return "(" + ", ".join(v[0] for v in vs) + ("," if len(vs) == 1 else "") + ")", "".join(v[1] for v in vs)
    if k == "array":
        vs = [gen_value(rng, a[0]) for _ in range(a[1])]
        return "[" + ", ".join(v[0] for v in vs) + "]", "".join(v[1] for v in vs)
    if k == "list":
        e, bound = a
        n = rng.choice([0, 1, bound // 2, bound - 1, rng.randrange(bound)])
        vs = [gen_value(rng, e) for _ in range(n)]
        bits, rest, b = "", vs, bound
        while b > 2:
            h = b // 2
            if len(rest) >= h:
                bits += "1" + "".join(v[1] for v in rest[:h]); rest = rest[h:]
            else:
                bits += "0"
            b = h
        bits += ("1" + rest[0][1]) if rest else "0"
        return "list![" + ", ".join(v[0] for v in vs) + "]", bits

def shape(idx):
    n = len(idx)
    if n == 0: return ""
    if n == 1: return "%d," % idx[0]
    h = split_at(n)
    return "(" + shape(idx[:h]) + shape(idx[h:]) + ")"

def part_shape(idx, bound):
    if bound == 2:
        return "[%s:1]" % "".join("%d," % i for i in idx)
    h = bound // 2
    if len(idx) < h:
        return "([:%d]%s)" % (h, part_shape(idx, h))
    return "([%s:%d]%s)" % ("".join("%d," % i for i in idx[:h]), h, part_shape(idx[h:], h))


@searcher("array/", "layout/")
def search_layout(drv, rng, budget):
    """BTreeSlice shapes for n = 0..300; Partition shapes for bounds 2..256, all lengths (sampled above 32); StructuralType of
    ~150 random types (depth <= 2, tuple sizes <= 9, array sizes <= 28, list bounds <= 32) against the documented layout;
    StructuralValue bits / typing / reconstruct / print-parse of random values; cast acceptance for type pairs"""
    for n in list(range(0, 70)) + [96, 100, 127, 128, 129, 255, 256, 257, 300]:
        got = drv.call("btree_shape", str(n)); exp = "ok " + shape(list(range(n)))
        if got != exp:
            return {"call": "BTreeSlice::fold shape", "input": {"n": n}, "op": ["btree_shape", str(n)], "expected": exp, "observed": got}
    for bound in (2, 4, 8, 16, 32, 64, 128, 256):
        for n in (range(bound) if bound <= 32 else sorted(set([0, 1, bound // 2 - 1, bound // 2, bound // 2 + 1, bound - 2, bound - 1] + [rng.randrange(bound) for _ in range(5)]))):
            got = drv.call("partition_shape", str(n), str(bound))
            exp = "ok %s complete=%s" % (part_shape(list(range(n)), bound), "true" if n == bound - 1 else "false")
            if got != exp:
                return {"call": "Partition::fold shape / is_complete", "input": {"len": n, "bound": bound}, "op": ["partition_shape", str(n), str(bound)], "expected": exp, "observed": got}
    types = [Ty("array", Ty("uint", 8), n) for n in (0, 1, 2, 3, 5, 7, 11, 12, 13, 14, 15, 19, 20, 24, 28, 33)]
    types += [Ty("list", Ty("uint", 8), b) for b in (2, 4, 8, 16, 32, 64)]
    types += [gen_type(rng, 2) for _ in range(min(150, budget // 3))]
    for ty in types:
        got = drv.call("struct_type", hx(ty.text())); exp = "ok " + show_final(ty.layout())
        if got != exp:
            return {"call": "StructuralType::from(&ResolvedType)", "input": {"type": ty.text()}, "op": ["struct_type", hx(ty.text())], "expected": exp, "observed": got}
    # sums whose sides have the same type / layout: the side must come from the tag, never from the payload's type
    same = [Ty("either", Ty("uint", 8), Ty("uint", 8)), Ty("either", Ty("tuple", [Ty("uint", 8), Ty("uint", 8)]), Ty("tuple", [Ty("uint", 8), Ty("uint", 8)])),
            Ty("tuple", [Ty("uint", 16), Ty("either", Ty("uint", 8), Ty("uint", 8))]), Ty("either", Ty("bool"), Ty("bool")),
            Ty("either", Ty("uint", 8), Ty("array", Ty("uint", 4), 2)), Ty("option", Ty("either", Ty("tuple", []), Ty("tuple", []))),
            Ty("array", Ty("either", Ty("uint", 1), Ty("uint", 1)), 3), Ty("list", Ty("either", Ty("uint", 8), Ty("uint", 8)), 4)]
    for ty in same * 3 + types[:: 2]:
        for _ in range(2):
            txt, bits = gen_value(rng, ty)
            got = drv.call("struct_value", hx(txt), hx(ty.text()))
            exp = "ok typed=true bits=%s reconstruct=true printparse=true" % bits
            if not got.startswith(exp + " "):
                return {"call": "StructuralValue::from(&Value) / Value::reconstruct / Display+parse", "input": {"value": txt, "type": ty.text()},
                        "op": ["struct_value", hx(txt), hx(ty.text())], "expected": exp, "observed": got}
    # casts: accepted exactly between equal layouts
    small = [Ty("uint", 8), Ty("uint", 16), Ty("tuple", [Ty("uint", 8), Ty("uint", 8)]), Ty("array", Ty("uint", 8), 2), Ty("array", Ty("uint", 8), 3),
             Ty("tuple", [Ty("uint", 8), Ty("tuple", [Ty("uint", 8), Ty("uint", 8)])]), Ty("tuple", [Ty("tuple", [Ty("uint", 8), Ty("uint", 8)]), Ty("uint", 8)]),
             Ty("tuple", [Ty("uint", 16), Ty("uint", 8)]), Ty("tuple", [Ty("uint", 8), Ty("uint", 16)]), Ty("either", Ty("uint", 8), Ty("uint", 8)),
             Ty("tuple", [Ty("bool"), Ty("uint", 8)]), Ty("option", Ty("uint", 1)), Ty("uint", 2), Ty("bool"), Ty("uint", 1), Ty("option", Ty("tuple", [])),
             Ty("array", Ty("uint", 8), 12), Ty("tuple", [Ty("uint", 32), Ty("uint", 64)]), Ty("list", Ty("uint", 8), 2), Ty("option", Ty("uint", 8))]
    # degenerate layouts: the empty array / empty tuple is unit for every element type, a 1-array / 1-tuple is its element
    small += [Ty("array", Ty("uint", 8), 0), Ty("array", Ty("uint", 16), 0), Ty("tuple", []), Ty("array", Ty("array", Ty("uint", 8), 0), 3),
              Ty("array", Ty("array", Ty("bool"), 0), 3), Ty("array", Ty("tuple", []), 2), Ty("array", Ty("uint", 8), 1), Ty("tuple", [Ty("uint", 8)]),
              Ty("array", Ty("uint", 16), 1), Ty("option", Ty("array", Ty("uint", 32), 0)), Ty("array", Ty("uint", 4), 4), Ty("array", Ty("uint", 2), 8),
              Ty("tuple", [Ty("array", Ty("uint", 8), 0), Ty("uint", 8)]), Ty("list", Ty("array", Ty("uint", 8), 0), 4), Ty("list", Ty("tuple", []), 4)]
    allpairs = [(s, t) for s in small for t in small]
    # every pair of equal layouts (the accepting side is sparse) + a sample of the others
    pairs = [p for p in allpairs if p[0].layout() == p[1].layout()]
    others = [p for p in allpairs if p[0].layout() != p[1].layout()]
    rng.shuffle(others)
    pairs += others[: max(150, budget // 2)]
    for s, t in pairs:
        vtxt, _ = gen_value(rng, s)
        src = "fn main() {\n    let x: %s = %s;\n    let y: %s = <%s>::into(x);\n}\n" % (s.text(), vtxt, t.text(), s.text())
        got = drv.call("run", hx(src), hx(""), hx(""), "0")
        want_ok = s.layout() == t.layout()
        # a rejected cast must be rejected by the front end, not by a later internal error of type inference (the wording of the
        # message is not part of the property)
        if (got == "ok") != want_ok or (not want_ok and not (got.startswith("compile-err") and "Failed to compile to Simplicity" not in got)):
            return {"call": "cast <%s>::into to %s" % (s.text(), t.text()), "input": {"program": src}, "op": ["run", hx(src), hx(""), hx(""), "0"],
                    "expected": "ok" if want_ok else "compile-err from the front end (layouts differ)", "observed": got}
    return None


# ---------------------------------------------------------------- C11 literals through the text entry point
def with_underscores(rng, digits):
    out = ""
    for ch in digits:
        if rng.random() < 0.25: out += "_"
        out += ch
    if rng.random() < 0.3: out += "_"
    return out


@searcher("literal-text/")
def search_literal_text(drv, rng, budget):
    """Value::parse_from_str (pest grammar + literal parsers) at every uN: decimal / binary / hex literals of boundary and random
    values with random `_` placement and leading zeros, digit-free forms, over-long digit strings, values that do not fit; hex at
    [u8; n]; U256 Display against the mathematical decimal rendering; every printed integer parses back"""
    for ty, bits in UINT_BITS.items():
        M = 2 ** bits
        vals = [0, 1, M - 1, M // 2, rng.randrange(M), rng.randrange(M)] + [10 ** k for k in range(0, 78, 11) if 10 ** k < M]
        for v in vals:
            forms = [(with_underscores(rng, str(v)), True), ("0" * rng.randint(1, 3) + str(v), True)]
            forms.append(("0b" + with_underscores(rng, format(v, "0%db" % bits)), True))
            if bits >= 8:
                forms.append(("0x" + with_underscores(rng, format(v, "0%dx" % (bits // 4))), True))
            for txt, ok in forms:
                if txt.startswith("_"):
                    txt = txt.lstrip("_") or "0"
                got = drv.call("struct_value", hx(txt), hx(ty))
                exp = "ok typed=true bits=%s reconstruct=true printparse=true" % format(v, "0%db" % bits)
                if not got.startswith(exp + " "):
                    return {"call": "Value::parse_from_str", "input": {"literal": txt, "type": ty}, "op": ["struct_value", hx(txt), hx(ty)], "expected": exp, "observed": got}
        bad = [str(M), str(M + 1), str(M * 10), "0b" + "1" * (bits + 1), "0b" + "1" * max(bits - 1, 0), "0b_", "0x_",
               "0x" + "f" * (bits // 4 + 1), "0x" + "f" * max(bits // 4 - 1, 0), "1" + "0" * 80]
        if bits < 8:
            bad += ["0x0", "0x00", "0x1"]
        for txt in bad:
            if txt in ("0b" + "1" * bits, "0b", "0x"):
                continue      # `0b` / `0x` without any digit or `_` are not literal tokens of the grammar (Value::parse_from_str reads `0`)
            if txt == "0x" + "f" * (bits // 4) and bits >= 8:
                continue
            got = drv.call("struct_value", hx(txt), hx(ty))
            if not (got.startswith("value-err") or got.startswith("type-err")):
                return {"call": "Value::parse_from_str", "input": {"literal": txt, "type": ty}, "op": ["struct_value", hx(txt), hx(ty)], "expected": "value-err (literal must be rejected)", "observed": got}
    # a literal made only of separators contains no digit at all: rejected at every width (as a program literal)
    for ty in UINT_BITS:
        for lit in ("_", "__", "0b_", "0x_"):
            src = "fn main() {\n    let x: %s = %s;\n}\n" % (ty, lit)
            got = drv.call("run", hx(src), hx(""), hx(""), "0")
            if not got.startswith("compile-err"):
                return {"call": "program with a digit-free literal", "input": {"program": src}, "op": ["run", hx(src), hx(""), hx(""), "0"], "expected": "compile-err", "observed": got}
    for n in (1, 2, 3, 5, 32):
        bs = bytes(rng.randrange(256) for _ in range(n))
        txt = "0x" + with_underscores(rng, bs.hex()).lstrip("_")
        got = drv.call("struct_value", hx(txt), hx("[u8; %d]" % n))
        exp = "ok typed=true bits=%s reconstruct=true printparse=true" % "".join(format(b, "08b") for b in bs)
        if not got.startswith(exp + " "):
            return {"call": "Value::parse_from_str", "input": {"literal": txt, "type": "[u8; %d]" % n}, "op": ["struct_value", hx(txt), hx("[u8; %d]" % n)], "expected": exp, "observed": got}
    M = 2 ** 256
    vals = [0, 1, 9, 10, 255, 256, 10 ** 18, 10 ** 19, 10 ** 19 + 1, 10 ** 38, 2 ** 64, 2 ** 128 - 1, 2 ** 128, M - 1, M // 3] + [10 ** k for k in range(17, 78, 3)] \
        + [rng.randrange(M) for _ in range(30)] + [rng.randrange(10 ** rng.randint(1, 77)) for _ in range(30)]
    for v in vals:
        got = drv.call("u256_display", "%064x" % v)
        if got != "ok " + str(v):
            return {"call": "<U256 as Display>::fmt", "input": {"value": v}, "op": ["u256_display", "%064x" % v], "expected": "ok " + str(v), "observed": got}
    return None


# ---------------------------------------------------------------- C14 debug symbols
def norm_ws(txt):
    """debug.rs remove_excess_whitespace: drop newlines, collapse runs of spaces (and leading spaces)"""
    out, last_space = "", True
    for ch in txt:
        if ch == " ":
            if last_space: continue
            last_space = True; out += ch
        elif ch == "\n":
            continue
        else:
            last_space = False; out += ch
    return out


@searcher("debugsym/")
def search_debug(drv, rng, budget):
    """programs with 1-8 tracked calls (assert!, panic! on an untaken branch, unwrap, unwrap_left/right, dbg!, jets) with random
    spacing: the debug build succeeds exactly when the plain build does (also for failing programs), the plain build carries no
    marker, every marker resolves to the source text and kind of exactly one call, distinct call sites get distinct markers"""
    for it in range(min(budget, 200)):
        calls = []      # (text-as-written, kind)
        lines = ["    let a: u8 = %d;" % rng.randrange(200)]
        fail = rng.random() < 0.3
        sp = lambda: " " * rng.randint(1, 3)
        n = rng.randint(1, 8)
        for k in range(n):
            c = rng.randrange(6)
            v = "x%d" % k
            # non-ASCII text INSIDE a call (columns count characters, byte lengths differ)
            cm = rng.choice(["", "", "/* a ≤ b */ ", "/* größer? */ ", "/* ✓ */"])
            if c == 0:
                inner = "jet::eq_8(a,%s%sa)" % (sp(), cm)
                t = "assert!(%s)" % inner
                calls += [(inner, "Jet"), (t, "Assert")]
                lines.append("    %s;" % t)
            elif c == 1:
                t = "unwrap(Some(a))" if rng.random() < 0.5 else "unwrap(%sSome(a))" % sp()
                calls.append((t, "Unwrap")); lines.append("    let %s: u8 = %s;" % (v, t))
            elif c == 2:
                t = "unwrap_left::<u16>(Left(a))"
                calls.append((t, "UnwrapLeft")); lines.append("    let %s: u8 = %s;" % (v, t))
            elif c == 3:
                t = "unwrap_right::<u16>(Right(a))"
                calls.append((t, "UnwrapRight")); lines.append("    let %s: u8 = %s;" % (v, t))
            elif c == 4:
                arg = "(a,%s%d)" % (sp(), k)
                calls.append((arg, "Debug")); lines.append("    let %s: (u8, u8) = dbg!(%s);" % (v, arg))
            else:
                t = "jet::add_8(a,%s%s%d)" % (sp(), cm, k)
                calls.append((t, "Jet")); lines.append("    let %s: (bool, u8) = %s;" % (v, t))
        if fail:
            inner = "jet::eq_8(a, %d)" % 201
            t = "assert!(%s)" % inner
            calls += [(inner, "Jet"), (t, "Assert")]
            if rng.random() < 0.5:
                # a failing call as the argument of a dbg! in statement position: must fail in BOTH builds
                calls.append((t, "Debug"))
                lines.append("    dbg!(%s);" % t)
            else:
                lines.append("    %s;" % t)
        if rng.random() < 0.4:
            # non-ASCII text is legal in comments; columns count characters, not bytes
            k2 = rng.randrange(1, len(lines))
            lines[k2] = "    " + rng.choice(["/* é ≤ ü */", "/* ✓✓✓ */", "/* ééééééé */", "/* 漢字 */", "/* ñ */", "/* ≤≤ */", "/* 🦀 */"]) + lines[k2].lstrip(" ").join([" ", ""])
        if it == 7:
            # many call sites: every one keeps its own marker
            for q in range(300):
                t = "jet::add_8(a, %d)" % (q % 200)
                t = t if q < 200 else "jet::add_8(a,  %d)" % (q - 200)
                calls.append((t, "Jet")); lines.append("    let y%d: (bool, u8) = %s;" % (q, t))
        src = "fn main() {\n" + "\n".join(lines) + "\n}\n"
        got = drv.call("debug_info", hx(src), hx(""))
        bad = None
        if not got.startswith("ok "):
            bad = "both builds compile"
        else:
            f = dict(p.split("=", 1) for p in got.split(" ")[1:])
            markers = bytes.fromhex(f["markers"]).decode().split("\x1e") if f["markers"] else []
            cmrs = f["cmrs"].split(",") if f["cmrs"] else []
            want = sorted("%s|%s" % (norm_ws(t), k) for t, k in calls)
            if f["plain"] != f["debug"]:
                bad = "debug build succeeds exactly when the plain build does"
            elif f["plain"] != ("exec-fail" if fail else "ok"):
                bad = "program outcome"
            elif f["plain_markers"] != "0":
                bad = "plain build carries no debug marker"
            elif sorted(markers) != want:
                bad = "markers resolve to the text and kind of the program's calls: expected %r" % want
            elif len(set(cmrs)) != len(cmrs):
                bad = "distinct call sites get distinct markers"
        if bad:
            return {"call": "CompiledProgram::new(.., debug symbols on/off)", "input": {"program": src}, "op": ["debug_info", hx(src), hx("")],
                    "expected": bad, "observed": got[:400]}
    return None


@searcher("reconstruct/")
def search_reconstruct(drv, rng, budget):
    """C14 (value of a dbg! argument): Value::reconstruct(StructuralValue::from(v), type(v)) == v for random values of ~100 random
    types (depth <= 2) and for sums whose two sides have the same type (the side must be read from the tag)"""
    U8 = Ty("uint", 8)
    same = [Ty("either", U8, U8), Ty("either", Ty("tuple", [U8, U8]), Ty("tuple", [U8, U8])), Ty("tuple", [Ty("uint", 16), Ty("either", U8, U8)]),
            Ty("either", Ty("bool"), Ty("bool")), Ty("either", U8, Ty("array", Ty("uint", 4), 2)), Ty("option", Ty("either", Ty("tuple", []), Ty("tuple", []))),
            Ty("array", Ty("either", Ty("uint", 1), Ty("uint", 1)), 3), Ty("list", Ty("either", U8, U8), 4), Ty("option", Ty("option", U8)),
            Ty("either", Ty("option", U8), Ty("option", U8))]
    types = same * 4 + [gen_type(rng, 2) for _ in range(min(100, budget // 4))]
    for ty in types:
        for _ in range(2):
            txt, bits = gen_value(rng, ty)
            got = drv.call("struct_value", hx(txt), hx(ty.text()))
            if not got.startswith("ok ") or "reconstruct=true" not in got:
                return {"call": "Value::reconstruct(StructuralValue::from(&v), ty)", "input": {"value": txt, "type": ty.text()},
                        "op": ["struct_value", hx(txt), hx(ty.text())], "expected": "ok ... reconstruct=true", "observed": got}
    return None


# ---------------------------------------------------------------- C05 witnesses
@searcher("witness/")
def search_witness(drv, rng, budget):
    """programs declaring 1-4 witnesses of random types (depth <= 2): satisfy succeeds with well-typed values and each
    witness::NAME evaluates to the supplied value (checked by casting to a bit tuple is avoided: equality through jets for
    integers, structural for the rest via a round trip program); a value of another type under a declared name is rejected;
    extra names the program does not declare are ignored"""
    names = ["A", "B", "C", "D"]
    int_tys = [8, 16, 32, 64]
    for it in range(min(budget, 150)):
        k = rng.randint(1, 4)
        decls, body, wit = [], [], []
        for nm in names[:k]:
            bits = rng.choice(int_tys)
            v = rng.randrange(2 ** bits)
            body.append("    assert!(jet::eq_%d(witness::%s, %d));" % (bits, nm, v))
            wit.append((nm, "u%d" % bits, str(v)))
        # a declared witness whose value is bound but never inspected: its (well-typed) value must not disturb anything
        if rng.random() < 0.5:
            uty, uval = rng.choice([("u8", "200"), ("(u8, u16)", "(1, 2)"), ("List<u16, 4>", "list![3, 4]"), ("Either<u8, u32>", "Right(7)"), ("[u8; 3]", "[1, 2, 3]")])
            form = rng.randrange(3)
            if form == 0: body.insert(0, "    let unused: %s = witness::U;" % uty)
            elif form == 1: body.append("    let (unused, two): (%s, u8) = (witness::U, 2);\n    assert!(jet::eq_8(two, 2));" % uty)
            else: body.append("    let two: u8 = { let unused: %s = witness::U; 2 };\n    assert!(jet::eq_8(two, 2));" % uty)
            wit.append(("U", uty, uval))
        # an unused, undeclared name of arbitrary type is ignored
        extra = [("ZZ", "(u8, bool)", "(1, true)")] if rng.random() < 0.5 else []
        src = "fn main() {\n" + "\n".join(body) + "\n}\n"
        mod = "mod witness {\n" + "\n".join("    const %s: %s = %s;" % w for w in wit + extra) + "\n}"
        got = drv.call("run", hx(src), hx(""), hx(mod), "0")
        if got != "ok":
            return {"call": "satisfy with well-typed witnesses", "input": {"program": src, "witness": mod}, "op": ["run", hx(src), hx(""), hx(mod), "0"], "expected": "ok", "observed": got}
        # same values, one declared name at a different type: must be rejected by satisfy (not reach the Bit Machine)
        j = rng.randrange(k)
        nm, ty, val = wit[j]
        wit = [w for w in wit if w[0] != "U"] + [w for w in wit if w[0] == "U"]
        same_layout = {"u16": ("(u8, u8)", "(1, 2)"), "u32": ("(u16, u16)", "(1, 2)"), "u64": ("[u32; 2]", "[1, 2]"), "u8": ("(u4, u4)", "(1, 2)")}
        if rng.random() < 0.5:
            other, oval = same_layout[ty]          # another type with the SAME bit layout must be rejected too
        else:
            other = rng.choice([t for t in ("u8", "u16", "u32", "u64", "(u8, u8)", "bool") if t != ty])
            oval = {"bool": "true", "(u8, u8)": "(1, 2)"}.get(other, "1")
        wit2 = list(wit); wit2[j] = (nm, other, oval)
        mod2 = "mod witness {\n" + "\n".join("    const %s: %s = %s;" % w for w in wit2 + extra) + "\n}"
        for op in ("run", "run_env"):
            got = drv.call(op, hx(src), hx(""), hx(mod2), "0")
            if not got.startswith("satisfy-err"):
                return {"call": "satisfy%s with an ill-typed witness" % ("_with_env(Some(env))" if op == "run_env" else ""), "input": {"program": src, "witness": mod2},
                        "op": [op, hx(src), hx(""), hx(mod2), "0"], "expected": "satisfy-err", "observed": got}
        got = drv.call("run_env", hx(src), hx(""), hx(mod), "0")
        if got != "ok":
            return {"call": "satisfy_with_env(Some(env)) with well-typed witnesses", "input": {"program": src, "witness": mod}, "op": ["run_env", hx(src), hx(""), hx(mod), "0"], "expected": "ok", "observed": got}
        if it % 10 == 0:
            many = [("N%d" % q, "u8", str(q)) for q in range(40)]
            mod4 = "mod witness {\n" + "\n".join("    const %s: %s = %s;" % w for w in wit2 + many) + "\n}"
            got = drv.call("run", hx(src), hx(""), hx(mod4), "0")
            if not got.startswith("satisfy-err"):
                return {"call": "satisfy with an ill-typed witness among 40 unused names", "input": {"program": src, "witness": mod4}, "op": ["run", hx(src), hx(""), hx(mod4), "0"], "expected": "satisfy-err", "observed": got}
        # a wrong VALUE of the right type must reach the program and make the assertion fail (delivery to the right name)
        if k >= 2:
            a, b = rng.sample(range(k), 2)
            if wit[a][1] == wit[b][1] and wit[a][2] != wit[b][2]:
                wit3 = list(wit); wit3[a] = (wit[a][0], wit[a][1], wit[b][2]); wit3[b] = (wit[b][0], wit[b][1], wit[a][2])
                mod3 = "mod witness {\n" + "\n".join("    const %s: %s = %s;" % w for w in wit3) + "\n}"
                got = drv.call("run", hx(src), hx(""), hx(mod3), "0")
                if not got.startswith("exec-fail"):
                    return {"call": "satisfy with two witness values swapped", "input": {"program": src, "witness": mod3}, "op": ["run", hx(src), hx(""), hx(mod3), "0"], "expected": "exec-fail", "observed": got}
    # composite witnesses that the program INSPECTS: sums whose sides have different types (both sides), options, nesting
    comp = [("Either<u16, u8>", "Right(5)", "match witness::E { Left(a: u16) => panic!(), Right(b: u8) => assert!(jet::eq_8(b, 5)), }"),
            ("Either<u16, u8>", "Left(300)", "match witness::E { Left(a: u16) => assert!(jet::eq_16(a, 300)), Right(b: u8) => panic!(), }"),
            ("Either<u8, u32>", "Left(7)", "match witness::E { Left(a: u8) => assert!(jet::eq_8(a, 7)), Right(b: u32) => panic!(), }"),
            ("Either<u8, u32>", "Right(70000)", "match witness::E { Left(a: u8) => panic!(), Right(b: u32) => assert!(jet::eq_32(b, 70000)), }"),
            ("Either<(u8, u8), u64>", "Left((1, 2))", "match witness::E { Left(a: (u8, u8)) => { let (x, y): (u8, u8) = a; assert!(jet::eq_8(y, 2)) }, Right(b: u64) => panic!(), }"),
            ("Either<(), u64>", "Right(9)", "match witness::E { Left(a: ()) => panic!(), Right(b: u64) => assert!(jet::eq_64(b, 9)), }"),
            ("Option<u32>", "Some(9)", "match witness::E { None => panic!(), Some(a: u32) => assert!(jet::eq_32(a, 9)), }"),
            ("Option<u32>", "None", "match witness::E { None => assert!(true), Some(a: u32) => panic!(), }"),
            ("Option<Either<u8, u16>>", "Some(Right(258))", "match witness::E { None => panic!(), Some(e: Either<u8, u16>) => match e { Left(a: u8) => panic!(), Right(b: u16) => assert!(jet::eq_16(b, 258)), }, }"),
            ("(u8, Either<u16, u8>)", "(3, Left(4))", "{ let (p, e): (u8, Either<u16, u8>) = witness::E; match e { Left(a: u16) => assert!(jet::eq_16(a, 4)), Right(b: u8) => panic!(), } }"),
            ("[Either<u8, u16>; 2]", "[Left(1), Right(2)]", "{ let [e1, e2]: [Either<u8, u16>; 2] = witness::E; match e2 { Left(a: u8) => panic!(), Right(b: u16) => assert!(jet::eq_16(b, 2)), } }"),
            ("List<Either<u8, u16>, 4>", "list![Right(2)]", "{ let l: List<Either<u8, u16>, 4> = witness::E; assert!(true) }")]
    for ty, val, use in comp:
        src = "fn main() {\n    %s;\n}\n" % use
        mod = "mod witness {\n    const E: %s = %s;\n}" % (ty, val)
        for op in ("run",):    # not run_env: simplicity-lang 0.4.0's pruner mis-executes one of these (DESIGN.md 11.3, D1)
            got = drv.call(op, hx(src), hx(""), hx(mod), "0")
            if got != "ok":
                return {"call": "satisfy with a composite witness that the program inspects", "input": {"program": src, "witness": mod}, "op": [op, hx(src), hx(""), hx(mod), "0"], "expected": "ok", "observed": got}
    return None


# ---------------------------------------------------------------- C12 templates
@searcher("template/")
def search_template(drv, rng, budget):
    """templates with 1-3 integer parameters: instantiation with matching arguments behaves like literal substitution; a missing
    argument (also: an empty argument map) or an argument of another type is rejected; extra arguments are ignored; composite
    arguments (arrays, tuples, nested, lists folded with a non-commutative function) keep the order of their components; one
    parameter name used at two different types is rejected"""
    for it in range(min(budget, 150)):
        k = rng.randint(1, 3)
        ps = []
        for nm in ["P", "Q", "R"][:k]:
            bits = rng.choice([8, 16, 32, 64])
            ps.append((nm, bits, rng.randrange(2 ** bits)))
        body = "\n".join("    assert!(jet::eq_%d(param::%s, %d));" % (b, n, v) for n, b, v in ps)
        # a parameter may be used more than once, at the same type
        n0, b0, v0 = ps[0]
        body += "\n    let pad: u8 = 3;\n    let again: u%d = param::%s;\n    assert!(jet::eq_%d(again, %d));" % (b0, n0, b0, v0)
        helper = ""
        if rng.random() < 0.6:
            # a parameter used (possibly only) inside a helper function
            nh, bh, vh = ps[-1]
            helper = "fn helper(x: u8) -> u%d { let y: u8 = x; param::%s }\n" % (bh, nh)
            body += "\n    assert!(jet::eq_%d(helper(1), %d));" % (bh, vh)
            if rng.random() < 0.5 and len(ps) > 1:
                body = "\n".join(l for l in body.split("\n") if "param::%s," % nh not in l)    # ... and nowhere in main
        src = helper + "fn main() {\n" + body + "\n}\n"
        want = ";".join(sorted("%s:u%d" % (n, b) for n, b, v in ps))
        got = drv.call("params", hx(src))
        if got != "ok " + want:
            return {"call": "TemplateProgram::parameters()", "input": {"program": src}, "op": ["params", hx(src)], "expected": "ok " + want, "observed": got}
        def mod(items): return "mod param {\n" + "\n".join("    const %s: %s = %s;" % it for it in items) + "\n}"
        args = [(n, "u%d" % b, str(v)) for n, b, v in ps]
        extra = [("UNUSED", "bool", "true")] + ([("X%d" % q, "u8", "1") for q in range(6)] if rng.random() < 0.5 else [])
        got = drv.call("run", hx(src), hx(mod(args + extra)), hx(""), "0")
        if got != "ok":
            return {"call": "instantiate with matching arguments (+ an extra one)", "input": {"program": src, "arguments": mod(args + extra)}, "op": ["run", hx(src), hx(mod(args + extra)), hx(""), "0"], "expected": "ok", "observed": got}
        lit = src
        for n, b, v in ps:
            lit = lit.replace("param::%s" % n, str(v))
        got = drv.call("run", hx(lit), hx(""), hx(""), "0")
        if got != "ok":
            return {"call": "program with the arguments written literally", "input": {"program": lit}, "op": ["run", hx(lit), hx(""), hx(""), "0"], "expected": "ok", "observed": got}
        j = rng.randrange(k)
        missing = args[:j] + args[j + 1:]
        got = drv.call("run", hx(src), hx(mod(missing + extra)), hx(""), "0")
        if not got.startswith("compile-err"):
            return {"call": "instantiate with a missing argument", "input": {"program": src, "arguments": mod(missing + extra)}, "op": ["run", hx(src), hx(mod(missing + extra)), hx(""), "0"], "expected": "compile-err", "observed": got}
        n, ty, v = args[j]
        other = rng.choice([t for t in ("u8", "u16", "u32", "u64") if t != ty])
        wrong = list(args); wrong[j] = (n, other, "1")
        if rng.random() < 0.4:
            wrong[j] = {"u16": (n, "(u8, u8)", "(1, 2)"), "u32": (n, "(u16, u16)", "(1, 2)"), "u64": (n, "[u32; 2]", "[1, 2]"), "u8": (n, "(u4, u4)", "(1, 2)")}[ty]
        got = drv.call("run", hx(src), hx(mod(wrong)), hx(""), "0")
        if not got.startswith("compile-err"):
            return {"call": "instantiate with an argument of another type", "input": {"program": src, "arguments": mod(wrong)}, "op": ["run", hx(src), hx(mod(wrong)), hx(""), "0"], "expected": "compile-err", "observed": got}
        # a different VALUE must change behaviour like the literal would
        wrongv = list(args); wrongv[j] = (n, ty, str((int(v) + 1) % 200))
        got = drv.call("run", hx(src), hx(mod(wrongv)), hx(""), "0")
        if not got.startswith("exec-fail"):
            return {"call": "instantiate with another value", "input": {"program": src, "arguments": mod(wrongv)}, "op": ["run", hx(src), hx(mod(wrongv)), hx(""), "0"], "expected": "exec-fail", "observed": got}
        # no arguments at all: every reported parameter is missing
        got = drv.call("run", hx(src), hx(""), hx(""), "0")
        if not got.startswith("compile-err"):
            return {"call": "instantiate with an EMPTY argument map", "input": {"program": src, "arguments": ""}, "op": ["run", hx(src), hx(""), hx(""), "0"], "expected": "compile-err (missing argument)", "observed": got}
        got = drv.call("run", hx(src), hx("mod param {\n}"), hx(""), "0")
        if not got.startswith("compile-err"):
            return {"call": "instantiate with an empty `mod param`", "input": {"program": src, "arguments": "mod param {\n}"}, "op": ["run", hx(src), hx("mod param {\n}"), hx(""), "0"], "expected": "compile-err (missing argument)", "observed": got}
    # composite arguments: order of the components matters (arrays, tuples, lists are scribed element by element)
    for it in range(min(budget // 4, 60)):
        n = rng.randint(2, 7)
        vals = [rng.randrange(256) for _ in range(n)]
        if len(set(vals)) < 2:
            vals[0] = (vals[1] + 1) % 256
        kind = rng.choice(["array", "tuple", "list", "nested"])
        if kind == "array":
            ty = "[u8; %d]" % n; arg = "[%s]" % ", ".join(map(str, vals))
            use = "    let %s: %s = param::A;\n" % ("[%s]" % ", ".join("x%d" % i for i in range(n)), ty)
        elif kind == "tuple":
            ty = "(%s)" % ", ".join(["u8"] * n); arg = "(%s)" % ", ".join(map(str, vals))
            use = "    let %s: %s = param::A;\n" % ("(%s)" % ", ".join("x%d" % i for i in range(n)), ty)
        elif kind == "nested":
            n = 4; vals = vals[:4] if len(vals) >= 4 else (vals + [7, 9, 11, 13])[:4]
            ty = "((u8, u8), [u8; 2])"; arg = "((%d, %d), [%d, %d])" % tuple(vals)
            use = "    let ((x0, x1), [x2, x3]): %s = param::A;\n" % ty
        else:
            bound = 8 if n < 8 else 16
            ty = "List<u8, %d>" % bound; arg = "list![%s]" % ", ".join(map(str, vals))
            # a non-commutative fold: acc' = acc * 3 + e (mod 2^32)
            acc = 7
            for v in vals: acc = (acc * 3 + v) % (2 ** 32)
            use = None
        if use is not None:
            body = use + "".join("    assert!(jet::eq_8(x%d, %d));\n" % (i, v) for i, v in enumerate(vals))
            src = "fn main() {\n" + body + "}\n"
        else:
            src = ("fn step(e: u8, acc: u32) -> u32 {\n    let (c1, m): (bool, u32) = jet::add_32(acc, acc);\n    let (c2, t): (bool, u32) = jet::add_32(m, acc);\n"
                   "    let (c3, r): (bool, u32) = jet::add_32(t, jet::left_pad_low_8_32(e));\n    r\n}\n"
                   "fn main() {\n    let l: %s = param::A;\n    let r: u32 = fold::<step, %d>(l, 7);\n    assert!(jet::eq_32(r, %d));\n}\n" % (ty, bound, acc))
        args = "mod param {\n    const A: %s = %s;\n}" % (ty, arg)
        got = drv.call("run", hx(src), hx(args), hx(""), "0")
        if got != "ok":
            return {"call": "instantiate with a composite argument (components in order)", "input": {"program": src, "arguments": args},
                    "op": ["run", hx(src), hx(args), hx(""), "0"], "expected": "ok", "observed": got}
        lit = src.replace("param::A", arg)
        got = drv.call("run", hx(lit), hx(""), hx(""), "0")
        if got != "ok":
            return {"call": "program with the composite argument written literally", "input": {"program": lit}, "op": ["run", hx(lit), hx(""), hx(""), "0"], "expected": "ok", "observed": got}
    # one parameter name used at two different types is rejected when the template is created (same type twice is fine)
    for a, b, ok in [("Option<u8>", "Option<u32>", False), ("u8", "u16", False), ("(u8, u8)", "u16", False), ("Option<u8>", "Option<u8>", True), ("u16", "u16", True)]:
        src = "fn main() {\n    let a: %s = param::X;\n    let b: %s = param::X;\n}\n" % (a, b)
        got = drv.call("params", hx(src))
        if ok != got.startswith("ok"):
            return {"call": "TemplateProgram::new with one parameter at two types", "input": {"program": src}, "op": ["params", hx(src)],
                    "expected": "ok" if ok else "err (parameter used at two different types)", "observed": got}
    return None


# ---------------------------------------------------------------- C20 error rendering
def rust_lines(s):
    """str::lines(): split at \\n, a \\r directly before the \\n is stripped, no empty last line"""
    parts = s.split("\n")
    if parts and parts[-1] == "":
        parts.pop()
        return [p[:-1] if p.endswith("\r") else p for p in parts]
    return [p[:-1] if p.endswith("\r") else p for p in parts[:-1]] + parts[-1:]


@searcher("error/")
def search_error_render(drv, rng, budget):
    """failing programs of 1-12 lines with an error injected at a random place (type mismatch, undefined variable, bad token,
    unbalanced bracket, bad literal), random indentation with tabs, CRLF or LF line ends, non-ASCII text in comments: every
    `N | text` line of the rendered message quotes line N verbatim, numbers are consecutive and inside the file, the
    message ends with an error description"""
    import re
    good = ["let a: u8 = 1;", "let b: u16 = 2;", "let c: (u8, u8) = (a, a);", "// commentaire é ü 漢字", "let d: bool = true;",
            "assert!(jet::eq_8(a, 1));", "let e: u8 = { let f: u8 = a; f };", "/* block */ let g: u32 = 7;"]
    bad = ["let x: u8 = 300;", "let x: u8 = nope;", "let x: u16 = a;", "let x: u8 = (1, 2);", "let x u8 = 1;", "let x: u8 = 1", "let x: u8 = $;",
           "let x: [u8; 2] = [1];", "let x: u8 = 0b101;", "assert!(jet::eq_8(a, b));", "let x: u8 = {{ 1 ;", "let (p, q): u8 = 1;", "let x: Zz = 1;", "é"]
    for it in range(min(budget, 300)):
        n = rng.randint(0, 9)
        body = [rng.choice(good) for _ in range(n)]
        if "let a: u8 = 1;" not in body[:1]:
            body.insert(0, "let a: u8 = 1;")
        body.insert(rng.randint(1, len(body)), rng.choice(bad))
        ind = lambda: rng.choice(["    ", "\t", "\t\t", "  \t", ""])
        lines = ["fn main() {"] + [ind() + b for b in body] + ["}"]
        if rng.random() < 0.3:
            lines.insert(0, "// en-tête: ñ")
        if it % 6 == 5:
            # an error whose span covers many lines: main with a parameter / a result, or no main at all
            body = [rng.choice(good) for _ in range(rng.randint(6, 14))]
            body = ["let a: u8 = 1;"] + body
            head = rng.choice(["fn main(x: u8) {", "fn main() -> u8 {", "fn notmain() {"])
            lines = [head] + [ind() + b for b in body] + ["}"]
        # trailing blanks on lines, blank / white-space-only lines in front of and inside the program: all of it is source text
        if rng.random() < 0.5:
            lines = [l + rng.choice(["", "", " ", "  ", "\t", " \t "]) for l in lines]
        if rng.random() < 0.4:
            lines = [rng.choice(["", "", "  ", "\t"]) for _ in range(rng.randint(1, 3))] + lines
        if rng.random() < 0.3 and len(lines) > 2:
            lines.insert(rng.randint(1, len(lines) - 1), rng.choice(["", "    ", "\t"]))
        nl = rng.choice(["\n", "\r\n"])
        src = nl.join(lines) + (nl if rng.random() < 0.7 else "")
        got = drv.call("render_err", hx(src))
        if got == "ok":
            continue
        if not got.startswith("err "):
            return {"call": "TemplateProgram::new (error rendering)", "input": {"source": src}, "op": ["render_err", hx(src)], "expected": "Err(message)", "observed": got[:300]}
        msg = bytes.fromhex(got[4:]).decode("utf-8", "replace")
        flines = rust_lines(src)
        mlines = msg.split("\n")
        quoted = []
        bad_reason = None
        for idx, ml in enumerate(mlines):
            m = re.match(r"^ *(\d+) \| (.*)$", ml) or re.match(r"^ *(\d+) \|()$", ml)
            if m:
                quoted.append((int(m.group(1)), m.group(2) if m.lastindex >= 2 else ""))
            # rows of another shape (gutter rows, notes) are not constrained by the property
        if bad_reason:
            pass
        elif not quoted:
            bad_reason = "the message quotes at least one source line"
        else:
            nums = [q[0] for q in quoted]
            if nums != list(range(nums[0], nums[0] + len(nums))):
                bad_reason = "quoted line numbers are consecutive"
            elif nums[0] < 1 or nums[-1] > len(flines):
                bad_reason = "quoted line numbers exist in the file (1..%d)" % len(flines)
            else:
                for num, text in quoted:
                    if text != flines[num - 1]:
                        bad_reason = "line %d is quoted verbatim (%r)" % (num, flines[num - 1]); break
            last = mlines[-1]
            if bad_reason is None and not re.search(r"[A-Za-z`]", last):
                bad_reason = "the message ends with the description of the error"
        if bad_reason:
            return {"call": "TemplateProgram::new (error rendering)", "input": {"source": src}, "op": ["render_err", hx(src)], "expected": bad_reason, "observed": msg[:500]}
    return None


# ---------------------------------------------------------------- C04 pattern typing
class Pt:
    """pattern: ('id', name) | ('_',) | ('tuple', [..]) | ('array', [..])"""
    pass

def gen_pat_type(rng, depth, names):
    """returns (pattern, conforming type) built together"""
    r = rng.random()
    if depth == 0 or r < 0.35:
        t = Ty("uint", rng.choice([8, 16])) if rng.random() < 0.7 else Ty("bool")
        if rng.random() < 0.25: return ("_",), t
        nm = names.pop(0) if names else None
        return (("id", nm) if nm else ("_",)), t
    if r < 0.7:
        k = rng.choice([0, 1, 2, 3, 4])
        subs = [gen_pat_type(rng, depth - 1, names) for _ in range(k)]
        return ("tuple", [s[0] for s in subs]), Ty("tuple", [s[1] for s in subs])
    k = rng.choice([1, 2, 3])
    p0, t0 = gen_pat_type(rng, depth - 1, names)
    ps = [p0] + [gen_pat_like(rng, p0, names) for _ in range(k - 1)]
    return ("array", ps), Ty("array", t0, k)

def gen_pat_like(rng, p, names):
    """a pattern of the same shape with fresh names"""
    if p[0] == "id":
        nm = names.pop(0) if names else None
        return ("id", nm) if nm else ("_",)
    if p[0] == "_": return ("_",)
    return (p[0], [gen_pat_like(rng, q, names) for q in p[1]])

def pat_text(p):
    if p[0] == "id": return p[1]
    if p[0] == "_": return "_"
    inner = ", ".join(pat_text(q) for q in p[1])
    if p[0] == "tuple": return "(" + inner + ("," if len(p[1]) == 1 else "") + ")"
    return "[" + inner + "]"

def pat_ids(p):
    if p[0] == "id": return [p[1]]
    if p[0] == "_": return []
    return [x for q in p[1] for x in pat_ids(q)]

def conforms(p, t):
    """documented rule: an identifier or `_` matches any type; a tuple pattern matches a tuple type of the SAME arity
    component-wise; an array pattern matches an array type of the same size element-wise"""
    if p[0] in ("id", "_"): return True
    if p[0] == "tuple":
        return t.kind == "tuple" and len(t.args[0]) == len(p[1]) and all(conforms(q, u) for q, u in zip(p[1], t.args[0]))
    return t.kind == "array" and t.args[1] == len(p[1]) and all(conforms(q, t.args[0]) for q in p[1])

def mutate_type(rng, t):
    """a type that differs from t in one place (arity, size, or tuple<->array)"""
    if t.kind == "tuple":
        ts = list(t.args[0])
        c = rng.randrange(4)
        if c == 0: return Ty("tuple", ts + [Ty("uint", 8)])
        if c == 1 and ts: return Ty("tuple", ts[:-1])
        if c == 2 and ts:
            i = rng.randrange(len(ts)); ts[i] = mutate_type(rng, ts[i]); return Ty("tuple", ts)
        return Ty("array", Ty("uint", 8), len(ts))
    if t.kind == "array":
        c = rng.randrange(3)
        if c == 0: return Ty("array", t.args[0], t.args[1] + 1)
        if c == 1 and t.args[1] > 0: return Ty("array", t.args[0], t.args[1] - 1)
        return Ty("array", mutate_type(rng, t.args[0]), t.args[1])
    return Ty("uint", 32) if not (t.kind == "uint" and t.args[0] == 32) else Ty("bool")


@searcher("static-rules/")
def search_static_rules(drv, rng, budget):
    """a fixed table of ~190 small programs around single static rules (expression typing per context, integer literal ranges per
    width, tuple / array / list sizes, call arity and argument types, scoping of function bodies / blocks / match arms, definitions
    before use, jets and built-ins, match typing, casts, witness rules, main signature, fold / for_while signatures): each is accepted
    or rejected by the front end as the rule says; rejected ones must be rejected by the front end, not by a later internal error"""
    cases = []
    for b in (2, 4, 8, 16):
        for n in (0, 1, b - 2, b - 1, b, b + 1):
            if n < 0: continue
            lit = "list![%s]" % ", ".join(str(i % 200) for i in range(n))
            cases.append(("fn main() { let l: List<u8, %d> = %s; }" % (b, lit), n < b))
    fw = "fn main() { let r: Either<u8, %s> = for_while::<step>(%s, ()); }"
    cases += [
        ("fn step(acc: u16, ctx: (), i: u8) -> Either<u8, u16> { Right(acc) }\n" + fw % ("u16", "7"), True),
        ("fn step(acc: u16, ctx: (), i: u8) -> Either<u8, (u8, u8)> { Right((1, 2)) }\n" + fw % ("(u8, u8)", "7"), False),
        ("fn step(acc: u16, ctx: (), i: u8) -> Either<u8, u32> { Right(1) }\n" + fw % ("u32", "7"), False),
        ("fn step(acc: u16, ctx: (), i: u32) -> Either<u8, u16> { Right(acc) }\n" + fw % ("u16", "7"), False),
        ("fn step(acc: u16, i: u8) -> Either<u8, u16> { Right(acc) }\n" + fw % ("u16", "7"), False),
        ("fn f(e: u8, acc: u16) -> u16 { acc }\nfn main() { let l: List<u8, 4> = list![1]; let r: u16 = fold::<f, 4>(l, 0); }", True),
        ("fn f(e: u8, acc: u16) -> u32 { 1 }\nfn main() { let l: List<u8, 4> = list![1]; let r: u32 = fold::<f, 4>(l, 0); }", False),
        ("fn f(e: u16, acc: u16) -> u16 { acc }\nfn main() { let l: List<u8, 4> = list![1]; let r: u16 = fold::<f, 4>(l, 0); }", False),
        ("fn f(e: u8, acc: u16) -> u16 { acc }\nfn main() { let l: List<u8, 8> = list![1]; let r: u16 = fold::<f, 4>(l, 0); }", False),
        ("fn g() -> u8 { witness::A }\nfn main() { let x: u8 = g(); }", False),
        ("fn main() { let x: u8 = witness::A; let y: u8 = witness::A; }", False),
        ("fn main() { let x: u8 = witness::A; let y: u8 = witness::B; }", True),
        ("fn main(x: u8) { }", False), ("fn main() -> u8 { 1 }", False), ("fn other() { }", False),
        ("fn main() { } fn main() { }", False),
        ("fn main() { let x: u8 = y; }", False), ("fn main() { let x: u8 = f(); }", False), ("fn main() { let x: T = 1; }", False),
        ("type T = u8; fn main() { let x: T = 1; }", True),
        ("fn f(a: u8) -> u8 { a } fn main() { let x: u8 = f(1, 2); }", False), ("fn f(a: u8) -> u8 { a } fn main() { let x: u8 = f(); }", False),
        ("fn f(a: u8) -> u8 { a } fn main() { let x: u8 = f(1); }", True),
        ("fn main() { let x: u8 = 256; }", False), ("fn main() { let x: u8 = 255; }", True),
        ("fn main() { let x: (u8, u8) = (1, 2, 3); }", False), ("fn main() { let x: [u8; 2] = [1, 2, 3]; }", False),
        ("fn main() { let x: u8 = true; }", False), ("fn main() { let x: Option<u8> = Some(true); }", False),
        ("fn main() { let x: u8 = { let y: u8 = 1; y }; let z: u8 = y; }", False),
    ]
    # one or more cases per clause of the property: expression typing in every context, integer literal ranges, tuple / array sizes,
    # call arity and argument types, scoping (function bodies, blocks, match arms), definitions before use, jets and built-ins,
    # match typing, casts between equal layouts only, witness rules, `main`, list bounds, fold / for_while signatures
    cases += [
 # --- expression typing in every context
 ("fn main() { let x: u16 = 1; let y: u8 = x; }", False),
 ("fn main() { let x: u16 = 1; let y: u16 = x; }", True),
 ("fn main() { let x: (u8, u16) = (1, 2); let (a, b): (u8, u16) = x; let c: u16 = b; }", True),
 ("fn main() { let x: (u8, u16) = (1, 2); let (a, b): (u8, u16) = x; let c: u8 = b; }", False),
 ("fn main() { let x: [u8; 2] = [1, 2]; let y: [u8; 3] = x; }", False),
 ("fn main() { let x: Option<u8> = Some(1); let y: Option<u16> = x; }", False),
 ("fn main() { let x: Either<u8, u16> = Left(1); }", True),
 ("fn main() { let x: Either<u8, u16> = Right(1); }", True),
 ("fn main() { let x: Either<u8, u16> = Left(256); }", False),
 ("fn main() { let x: Either<u8, u16> = Right(65536); }", False),
 ("fn main() { let x: Option<u8> = None; }", True),
 ("fn main() { let x: u8 = None; }", False),
 ("fn main() { let x: bool = 1; }", False),
 ("fn main() { let x: u1 = 1; let y: u1 = 2; }", False),
 ("fn main() { let x: u2 = 3; }", True), ("fn main() { let x: u2 = 4; }", False),
 ("fn main() { let x: u4 = 15; }", True), ("fn main() { let x: u4 = 16; }", False),
 ("fn main() { let x: u16 = 65535; }", True), ("fn main() { let x: u16 = 65536; }", False),
 ("fn main() { let x: u32 = 4294967295; }", True), ("fn main() { let x: u32 = 4294967296; }", False),
 ("fn main() { let x: u64 = 18446744073709551615; }", True), ("fn main() { let x: u64 = 18446744073709551616; }", False),
 ("fn main() { let x: (u8, bool) = (1, true); }", True), ("fn main() { let x: (u8, bool) = (true, 1); }", False),
 ("fn main() { let x: [bool; 2] = [true, 1]; }", False),
 ("fn main() { let x: [u8; 0] = []; }", True), ("fn main() { let x: [u8; 1] = []; }", False), ("fn main() { let x: [u8; 0] = [1]; }", False),
 ("fn main() { let x: () = (); }", True), ("fn main() { let x: () = (1,); }", False), ("fn main() { let x: (u8,) = (1,); }", True), ("fn main() { let x: (u8,) = (); }", False),
 ("fn main() { let x: (u8, u8) = (1,); }", False), ("fn main() { let x: (u8, u8, u8) = (1, 2); }", False),
 # blocks: the value of a block is its last expression and has the block's type
 ("fn main() { let x: u8 = { let y: u16 = 1; 2 }; }", True),
 ("fn main() { let x: u8 = { let y: u16 = 1; y }; }", False),
 # --- function calls: argument count, argument types, result type
 ("fn f(a: u8, b: u16) -> u16 { b } fn main() { let x: u16 = f(1, 2); }", True),
 ("fn f(a: u8, b: u16) -> u16 { b } fn main() { let x: u8 = f(1, 2); }", False),
 ("fn f(a: u8, b: u16) -> u16 { b } fn main() { let y: u16 = 3; let x: u16 = f(y, 2); }", False),
 ("fn f(a: u8, b: u16) -> u16 { b } fn main() { let x: u16 = f(1); }", False),
 ("fn f(a: u8, b: u16) -> u16 { b } fn main() { let x: u16 = f(1, 2, 3); }", False),
 ("fn f(a: u8) -> u8 { a } fn main() { let x: u8 = f(300); }", False),
 ("fn f(a: u8) -> u16 { a } fn main() { }", False),
 ("fn f(a: u8) { } fn main() { f(1); }", True),
 ("fn f(a: u8) { } fn main() { let x: u8 = f(1); }", False),
 ("fn f() -> u8 { } fn main() { }", False),
 # a function body sees only its parameters
 ("fn f(a: u8) -> u8 { b } fn main() { let b: u8 = 1; let x: u8 = f(b); }", False),
 # an inner binding shadows an outer one of another type, and vanishes with its block
 ("fn main() { let x: u8 = 1; let z: u16 = { let x: u16 = 2; let y: u16 = x; y }; let w: u8 = x; }", True),
 ("fn main() { let x: u8 = 1; let z: u8 = { let x: u16 = 2; let y: u8 = x; y }; }", False),
 ("fn main() { let x: u8 = 1; let z: u16 = { let x: u16 = 2; x }; let w: u16 = x; }", False),
 ("fn f(x: u8) -> u16 { let x: u16 = 3; x } fn main() { let y: u16 = f(1); }", True),
 ("fn main() { let x: u8 = 1; let e: Either<u16, u8> = Left(2); let r: u16 = match e { Left(x: u16) => x, Right(y: u8) => 7, }; let w: u8 = x; }", True),
 ("fn main() { let x: u8 = 1; let e: Either<u16, u8> = Left(2); let r: u8 = match e { Left(x: u16) => x, Right(y: u8) => 7, }; }", False),
 # literal notations: hex needs exactly N/4 digits and N >= 8, binary exactly N digits
 ("fn main() { let x: u4 = 0xf; }", False), ("fn main() { let x: u4 = 0xff; }", False), ("fn main() { let x: u1 = 0x1; }", False), ("fn main() { let x: u2 = 0x10; }", False),
 ("fn main() { let x: u8 = 0xff; }", True), ("fn main() { let x: u8 = 0xf; }", False), ("fn main() { let x: u8 = 0x0ff; }", False), ("fn main() { let x: u16 = 0xff; }", False),
 ("fn main() { let x: u16 = 0x00ff; }", True), ("fn main() { let x: u32 = 0xdead_beef; }", True), ("fn main() { let x: [u8; 2] = 0xabcd; }", True), ("fn main() { let x: [u8; 2] = 0xabc; }", False),
 ("fn main() { let x: u4 = 0b1011; }", True), ("fn main() { let x: u4 = 0b101; }", False), ("fn main() { let x: u4 = 0b10110; }", False), ("fn main() { let x: u1 = 0b1; }", True),
 ("fn main() { let x: u8 = 0b1011_1101; }", True), ("fn main() { let x: u8 = 0b1011; }", False), ("fn main() { let x: u2 = 0b10; }", True), ("fn main() { let x: u2 = 0b1; }", False),
 # every builtin type alias is a type (also the ones that are a prefix of another one)
 ("fn f(x: Ctx8) -> Ctx8 { x } fn main() { }", True),
 ("fn f(x: Pubkey) -> Pubkey { x } fn main() { }", True),
 ("fn f(x: Message64) -> Message64 { x } fn main() { }", True),
 ("fn f(x: Message) -> Message { x } fn main() { }", True),
 ("fn f(x: Signature) -> Signature { x } fn main() { }", True),
 ("fn f(x: Scalar) -> Scalar { x } fn main() { }", True),
 ("fn f(x: Fe) -> Fe { x } fn main() { }", True),
 ("fn f(x: Gej) -> Gej { x } fn main() { }", True),
 ("fn f(x: Ge) -> Ge { x } fn main() { }", True),
 ("fn f(x: Point) -> Point { x } fn main() { }", True),
 ("fn f(x: Height) -> Height { x } fn main() { }", True),
 ("fn f(x: Time) -> Time { x } fn main() { }", True),
 ("fn f(x: Distance) -> Distance { x } fn main() { }", True),
 ("fn f(x: Duration) -> Duration { x } fn main() { }", True),
 ("fn f(x: Lock) -> Lock { x } fn main() { }", True),
 ("fn f(x: Outpoint) -> Outpoint { x } fn main() { }", True),
 ("fn f(x: Confidential1) -> Confidential1 { x } fn main() { }", True),
 ("fn f(x: ExplicitAsset) -> ExplicitAsset { x } fn main() { }", True),
 ("fn f(x: Asset1) -> Asset1 { x } fn main() { }", True),
 ("fn f(x: ExplicitAmount) -> ExplicitAmount { x } fn main() { }", True),
 ("fn f(x: Amount1) -> Amount1 { x } fn main() { }", True),
 ("fn f(x: ExplicitNonce) -> ExplicitNonce { x } fn main() { }", True),
 ("fn f(x: Nonce) -> Nonce { x } fn main() { }", True),
 ("fn f(x: TokenAmount1) -> TokenAmount1 { x } fn main() { }", True),
 ("fn f(x: Gejj) -> u8 { 1 } fn main() { }", False), ("fn f(x: Message6) -> u8 { 1 } fn main() { }", False),
 # a binding of one match arm is not in scope in the other arm
 ("fn main() { let e: Either<u8, u8> = Left(1); let r: u8 = match e { Left(a: u8) => a, Right(b: u8) => a, }; }", False),
 ("fn main() { let e: Either<u8, u8> = Left(1); let r: u8 = match e { Left(a: u8) => a, Right(b: u8) => b, }; }", True),
 ("fn main() { let o: Option<u8> = Some(1); let r: u8 = match o { None => 0, Some(v: u8) => v, }; }", True),
 ("fn main() { let e: Either<u8, u16> = Left(1); let r: u16 = match e { Left(a: u8) => 7, Right(b: u16) => { let c: u8 = a; b }, }; }", False),
 ("fn main() { let x: u16 = 9; let e: Either<u8, u16> = Left(1); let r: u16 = match e { Left(x: u8) => 7, Right(b: u16) => x, }; }", True),
 ("fn main() { let x: u16 = 9; let e: Either<u8, u16> = Left(1); let r: u8 = match e { Left(x: u8) => x, Right(b: u16) => 3, }; let y: u16 = x; }", True),
 ("fn main() { let e: Either<u8, u16> = Left(1); let r: u8 = match e { Left(x: u8) => x, Right(b: u16) => 3, }; let y: u8 = x; }", False),
 # witnesses only inside main, wherever main stands
 ("fn main() { } fn late() -> u8 { witness::A }", False),
 ("fn early() -> u8 { witness::A } fn main() { }", False),
 ("fn main() { let x: u8 = witness::A; } fn late() -> u8 { 1 }", True),
 ("fn main() { let x: u8 = { let y: u8 = { witness::A }; y }; }", True),
 # parameters of one function have distinct names (the parameter list binds each name once; F6)
 ("fn f(a: u8, a: u8) -> u8 { a } fn main() { let x: u8 = f(1, 2); }", False),
 ("fn f(a: u8, a: u16) -> u16 { a } fn main() { let x: u16 = f(1, 2); }", False),
 ("fn f(a: u8, b: u8, a: u8) -> u8 { b } fn main() { let x: u8 = f(1, 2, 3); }", False),
 ("fn f(a: u8, b: u8) -> u8 { let a: u8 = b; a } fn main() { let x: u8 = f(1, 2); assert!(jet::eq_8(x, 2)); }", True),
 # definitions before use
 ("fn main() { let x: u8 = g(); } fn g() -> u8 { 1 }", False),
 ("fn g() -> u8 { 1 } fn main() { let x: u8 = g(); }", True),
 ("fn g() -> u8 { g() } fn main() { }", False),
 ("fn main() { let x: T = 1; } type T = u8;", False),
 ("type A = u8; type B = (A, A); fn main() { let x: B = (1, 2); }", True),
 ("type B = (A, A); type A = u8; fn main() { let x: B = (1, 2); }", False),
 ("fn main() { let x: u8 = x; }", False),
 ("fn main() { let y: u8 = 1; let x: u8 = y; }", True),
 ("fn main() { let x: u8 = y; let y: u8 = 1; }", False),
 # jets: arity and types
 ("fn main() { let x: (bool, u8) = jet::add_8(1, 2); }", True),
 ("fn main() { let x: u8 = jet::add_8(1, 2); }", False),
 ("fn main() { let x: (bool, u8) = jet::add_8(1); }", False),
 ("fn main() { let x: (bool, u8) = jet::add_8(1, 2, 3); }", False),
 ("fn main() { let x: (bool, u8) = jet::add_8(1, 256); }", False),
 ("fn main() { let a: u16 = 1; let x: (bool, u8) = jet::add_8(a, 2); }", False),
 ("fn main() { let x: bool = jet::eq_8(1, 2); }", True),
 ("fn main() { let x: bool = jet::nonexistent_jet(1, 2); }", False),
 # built-ins
 ("fn main() { let x: u8 = unwrap(Some(1)); }", True), ("fn main() { let x: u8 = unwrap(1); }", False),
 ("fn main() { let x: u8 = unwrap_left::<u16>(Left(1)); }", True), ("fn main() { let x: bool = unwrap_left::<u16>(Left(1)); }", False),
 ("fn main() { let x: u8 = unwrap_right::<u16>(Right(1)); }", True), ("fn main() { let x: u8 = unwrap_right::<u16>(Right(true)); }", False),
 ("fn main() { let x: bool = is_none::<u8>(None); }", True), ("fn main() { let x: u8 = is_none::<u8>(None); }", False),
 ("fn main() { assert!(true); }", True), ("fn main() { assert!(1); }", False), ("fn main() { let x: u8 = assert!(true); }", False),
 ("fn main() { let x: u8 = dbg!(1); }", True), ("fn main() { let x: u16 = dbg!(true); }", False),
 # match
 ("fn main() { let x: u8 = match true { true => 1, false => 2, }; }", True),
 ("fn main() { let x: u8 = match true { true => 1, false => true, }; }", False),
 ("fn main() { let x: u8 = match 1 { true => 1, false => 2, }; }", False),
 ("fn main() { let e: Either<u8, u16> = Left(1); let x: u8 = match e { Left(a: u8) => a, Right(b: u16) => 2, }; }", True),
 ("fn main() { let e: Either<u8, u16> = Left(1); let x: u8 = match e { Left(a: u8) => a, Right(b: u16) => b, }; }", False),
 ("fn main() { let e: Either<u8, u16> = Left(1); let x: u8 = match e { Left(a: u16) => 1, Right(b: u16) => 2, }; }", False),
 ("fn main() { let e: Option<u8> = Some(1); let x: u8 = match e { None => 0, Some(a: u8) => a, }; }", True),
 ("fn main() { let e: Option<u8> = Some(1); let x: u8 = match e { None => 0, Some(a: u16) => 1, }; }", False),
 ("fn main() { let e: Option<u8> = Some(1); let x: u8 = match e { Left(a: u8) => a, Right(b: u8) => b, }; }", False),
 # a match arm binding vanishes after the arm
 ("fn main() { let e: Option<u8> = Some(1); let x: u8 = match e { None => 0, Some(a: u8) => a, }; let y: u8 = a; }", False),
 # casts connect structurally equal types
 ("fn main() { let x: (u8, u8) = (1, 2); let y: u16 = <(u8, u8)>::into(x); }", True),
 ("fn main() { let x: (u8, u8) = (1, 2); let y: u32 = <(u8, u8)>::into(x); }", False),
 ("fn main() { let x: u16 = 1; let y: [u8; 2] = <u16>::into(x); }", True),
 ("fn main() { let x: u16 = 1; let y: [u8; 3] = <u16>::into(x); }", False),
 ("fn main() { let x: bool = true; let y: u1 = <bool>::into(x); }", True),
 ("fn main() { let x: bool = true; let y: u2 = <bool>::into(x); }", False),
 ("fn main() { let x: Option<()> = None; let y: bool = <Option<()>>::into(x); }", True),
 ("fn main() { let x: u16 = 1; let y: u16 = <u8>::into(x); }", False),
 ("fn main() { let x: [u8; 4] = [1, 2, 3, 4]; let y: ((u8, u8), (u8, u8)) = <[u8; 4]>::into(x); }", True),
 ("fn main() { let x: [u8; 3] = [1, 2, 3]; let y: ((u8, u8), u8) = <[u8; 3]>::into(x); }", False),
 ("fn main() { let x: [u8; 3] = [1, 2, 3]; let y: (u8, (u8, u8)) = <[u8; 3]>::into(x); }", True),
 # witnesses and parameters
 ("fn main() { let x: u8 = witness::A; }", True),
 ("fn main() { let x: u8 = { let y: u8 = witness::A; y }; }", True),
 ("fn f(a: u8) -> u8 { a } fn main() { let x: u8 = f(witness::A); }", True),
 ("fn f() -> u8 { let y: u8 = witness::A; y } fn main() { let x: u8 = f(); }", False),
 ("fn main() { let x: u8 = witness::A; let y: u16 = witness::A; }", False),
 ("fn main() { let x: (u8, u8) = (witness::A, witness::A); }", False),
 # main
 ("fn main() { let x: u8 = 1; x }", False),
 ("fn f() { }", False),
 ("fn main() { } fn f() { } fn f() { }", False),
 ("fn main() { main(); }", False),
 # lists
 ("fn main() { let l: List<u8, 4> = list![1, 2, 3]; }", True),
 ("fn main() { let l: List<u8, 4> = list![1, 2, 3, 4]; }", False),
 ("fn main() { let l: List<u8, 4> = list![1, true]; }", False),
 ("fn main() { let l: List<u8, 4> = list![256]; }", False),
 ("fn main() { let l: List<u8, 2> = list![]; }", True), ("fn main() { let l: List<u8, 2> = list![1]; }", True), ("fn main() { let l: List<u8, 2> = list![1, 2]; }", False),
 ("fn main() { let l: List<u8, 3> = list![1]; }", False),
 ("fn main() { let l: List<u8, 1> = list![]; }", False),
 ("fn main() { let l: List<u8, 4> = list![1]; let m: List<u8, 8> = l; }", False),
 # fold / for_while signatures
 ("fn f(e: u8, acc: u16) -> u16 { acc } fn main() { let r: u16 = fold::<f, 4>(list![1, 2], 0); }", True),
 ("fn f(e: u8, acc: u16) -> u16 { acc } fn main() { let r: u16 = fold::<f, 4>(list![1, 2, 3, 4], 0); }", False),
 ("fn f(e: u8, acc: u16) -> u16 { acc } fn main() { let r: u16 = fold::<f, 4>(list![1, 2], true); }", False),
 ("fn f(e: u8, acc: u16) -> u16 { acc } fn main() { let r: u8 = fold::<f, 4>(list![1, 2], 0); }", False),
 ("fn f(e: u8) -> u8 { e } fn main() { let r: u8 = fold::<f, 4>(list![1, 2], 0); }", False),
 ("fn f(e: u8, acc: u16, z: u8) -> u16 { acc } fn main() { let r: u16 = fold::<f, 4>(list![1, 2], 0); }", False),
 ("fn main() { let r: u16 = fold::<g, 4>(list![1, 2], 0); }", False),
 ("fn s(acc: u8, ctx: u16, i: u1) -> Either<bool, u8> { Right(acc) } fn main() { let r: Either<bool, u8> = for_while::<s>(1, 2); }", True),
 ("fn s(acc: u8, ctx: u16, i: u2) -> Either<bool, u8> { Right(acc) } fn main() { let r: Either<bool, u8> = for_while::<s>(1, 2); }", True),
 ("fn s(acc: u8, ctx: u16, i: u4) -> Either<bool, u8> { Right(acc) } fn main() { let r: Either<bool, u8> = for_while::<s>(1, 2); }", True),
 ("fn s(acc: u8, ctx: u16, i: u16) -> Either<bool, u8> { Right(acc) } fn main() { let r: Either<bool, u8> = for_while::<s>(1, 2); }", True),
 ("fn s(acc: u8, ctx: u16, i: u32) -> Either<bool, u8> { Right(acc) } fn main() { let r: Either<bool, u8> = for_while::<s>(1, 2); }", False),
 ("fn s(acc: u8, ctx: u16, i: bool) -> Either<bool, u8> { Right(acc) } fn main() { let r: Either<bool, u8> = for_while::<s>(1, 2); }", False),
 ("fn s(acc: u8, ctx: u16, i: u8) -> Either<bool, u8> { Right(acc) } fn main() { let r: Either<bool, u8> = for_while::<s>(1, true); }", False),
 ("fn s(acc: u8, ctx: u16, i: u8) -> Either<bool, u8> { Right(acc) } fn main() { let r: Either<bool, u8> = for_while::<s>(300, 2); }", False),
 ("fn s(acc: u8, ctx: u16, i: u8) -> Either<bool, u8> { Right(acc) } fn main() { let r: Either<bool, u16> = for_while::<s>(1, 2); }", False),
 ("fn s(acc: u8, ctx: u16, i: u8) -> u8 { acc } fn main() { let r: u8 = for_while::<s>(1, 2); }", False),
 ("fn s(acc: u8, ctx: u16, i: u8) -> Either<bool, u8> { Right(acc) } fn main() { let r: Either<bool, u8> = for_while::<s>(1); }", False),
    ]
    for src, ok in cases:
        got = drv.call("run", hx(src), hx(""), hx("mod witness { const A: u8 = 1; const B: u8 = 2; }" if "witness::" in src else ""), "0")
        bad = (got != "ok") if ok else (not got.startswith("compile-err") or "Failed to compile to Simplicity" in got)
        if bad:
            return {"call": "front end on a small program", "input": {"program": src}, "op": ["run", hx(src), hx(""), hx(""), "0"],
                    "expected": "ok" if ok else "compile-err from the front end", "observed": got}
    return None


@searcher("pattern/")
def search_pattern_typing(drv, rng, budget):
    """let statements `let PATTERN: TYPE = VALUE;` with patterns of depth <= 2 (tuples of 0-4, arrays of 1-3, identifiers, `_`):
    accepted when the pattern conforms to the type and binds each name once (and every bound name then has the value of its
    component); rejected when arity / size / shape differ in one place or a name is bound twice"""
    for it in range(min(budget, 400)):
        names = ["a", "b", "c", "d", "e", "f", "g", "h"]
        p, t = gen_pat_type(rng, 2, names)
        vtxt, _ = gen_value(rng, t)
        mode = rng.randrange(3)
        if mode == 0:
            src = "fn main() {\n    let %s: %s = %s;\n}\n" % (pat_text(p), t.text(), vtxt)
            got = drv.call("run", hx(src), hx(""), hx(""), "0")
            if got != "ok":
                return {"call": "let with a conforming pattern", "input": {"program": src}, "op": ["run", hx(src), hx(""), hx(""), "0"], "expected": "ok", "observed": got}
        elif mode == 1:
            t2 = mutate_type(rng, t)
            if conforms(p, t2):
                continue
            v2, _ = gen_value(rng, t2)
            src = "fn main() {\n    let %s: %s = %s;\n}\n" % (pat_text(p), t2.text(), v2)
            got = drv.call("run", hx(src), hx(""), hx(""), "0")
            if not got.startswith("compile-err") or "Failed to compile to Simplicity" in got:
                return {"call": "let with a pattern that does not fit the type", "input": {"program": src}, "op": ["run", hx(src), hx(""), hx(""), "0"],
                        "expected": "compile-err from the front end (pattern does not match type)", "observed": got}
        else:
            ids = pat_ids(p)
            if len(ids) < 2:
                continue
            # bind one name twice
            dup = pat_text(p).replace(ids[1], ids[0], 1)
            src = "fn main() {\n    let %s: %s = %s;\n}\n" % (dup, t.text(), vtxt)
            got = drv.call("run", hx(src), hx(""), hx(""), "0")
            if not got.startswith("compile-err"):
                return {"call": "let binding one name twice in a pattern", "input": {"program": src}, "op": ["run", hx(src), hx(""), hx(""), "0"], "expected": "compile-err", "observed": got}
    return None


@searcher("panic-sweep/")
def search_panic_sweep(drv, rng, budget):
    """C06 on STRUCTURED inputs: the generated programs / witness maps / templates / literals of the other searchers (static rule
    table, patterns, shadowing programs, witnesses, templates, debug builds, error rendering, layouts) are replayed and ONLY a
    panic or a dead process counts here (what those programs should evaluate to belongs to the other properties)"""
    drv.panic_log = []
    try:
        for name in ("static-rules/", "pattern/", "lookup/", "witness/", "template/", "debugsym/", "error/", "layout/", "fold/list_fold", "forwhile/for_while"):
            f = SEARCHERS.get(name)
            if f is None:
                continue
            # each searcher stops at ITS first mismatch: several short runs with different generator seeds, so that a change
            # which makes many programs misbehave does not hide the ones that panic
            for rep in range(6):
                try:
                    f(drv, random.Random(rng.random()), max(8, budget // 48))
                except Exception:
                    pass
                if drv.panic_log:
                    break
            if drv.panic_log:
                op, resp = drv.panic_log[0]
                shown = [bytes.fromhex(x).decode("utf-8", "replace") if x and len(x) % 2 == 0 and all(c in "0123456789abcdef" for c in x) else x for x in op[1:]]
                return {"call": "entry point `%s` on an input generated by %s" % (op[0], name), "input": {"text": shown}, "op": op,
                        "expected": "Ok or Err (no panic)", "observed": resp[:300]}
    finally:
        drv.panic_log = None
    return None


# ---------------------------------------------------------------- C06 totality of the text entry points
@searcher("totality/")
def search_totality(drv, rng, budget):
    """every text entry point (program, type, value at a type, witness module, argument module, error rendering) on valid
    samples and on mutations of them (character deletion / insertion / replacement / duplication of a line, random `_`, digits,
    brackets up to depth 12, newlines, tabs, CR, non-ASCII): the driver must answer Ok or Err, never a panic or a dead process"""
    progs = ["fn main() {\n    let a: u8 = 1;\n    assert!(jet::eq_8(a, 1));\n}\n",
             "type T = (u8, bool);\nfn f(x: T) -> u8 { let (a, b): T = x; a }\nfn main() { let y: u8 = f((1, true)); }\n",
             "fn main() {\n    let l: List<u8, 4> = list![1, 2];\n    let o: Option<u16> = Some(0xffff);\n    let e: Either<u1, u2> = Left(0b1);\n    match e { Left(x: u1) => assert!(true), Right(y: u2) => panic!(), }\n}\n",
             "fn main() { let x: u256 = 0x0000000000000000000000000000000000000000000000000000000000000001; let w: u8 = witness::W; }\n"]
    # non-ASCII text in front of and inside tracked calls on the same line (byte offsets and character columns differ)
    progs += ["fn main() {\n    /* ✓✓✓ */ assert!(true);\n    let a: u8 = 1; /* ééééééé */ assert!(jet::eq_8(a, /* 漢字 */ 1));\n}\n",
              "fn main() {\n    let a: u8 = 1;\n    /* ≤ */ let b: (bool, u8) = /* 🦀 */ jet::add_8(a, /* größer */ 2); /* ñ */ assert!(jet::eq_8(a, 1)); // é\n    let c: u8 = dbg!(/* ü */ a);\n}\n",
              "// ✓\nfn f(x: u8) -> u8 { /* 漢 */ unwrap(Some(x)) }\nfn main() { /* ééé */ let y: u8 = f(/* ✓✓ */ 1); /* ü */ assert!(jet::eq_8(y, 1)); }"]
    types = ["u8", "(u8, u16)", "[u32; 7]", "List<bool, 8>", "Option<Either<u1, (u2, u4)>>", "()", "(u128,)", "[(); 0]", "Foo", "Foo\n\n", "u8\n", ""]
    values = [("5", "u8"), ("(1, 2)", "(u8, u16)"), ("[1, 2, 3]", "[u8; 3]"), ("list![1]", "List<u8, 2>"), ("0xab", "u8"), ("0b1", "u1"), ("0x", "u4"),
              ("0b_", "u8"), ("Some(Left(1))", "Option<Either<u8, u8>>"), ("0x0102", "[u8; 2]"), ("1_0", "u8"), ("0b" + "1" * 16, "u16"), ("0b" + "0" * 32, "u32"),
              ("0b" + "10" * 64, "u128"), ("0b" + "1" * 256, "u256"), ("0b" + "1" * 64, "u64")]
    mods = ["mod witness {\n    const A: u8 = 1;\n    const B: (u8, bool) = (2, false);\n}", "mod param { const X: u32 = 7; }", "mod witness {}", "mod other { const A: u8 = 1; }"]
    jsons = ['{"A": {"value": "1", "type": "u8"}, "B": {"value": "(2, false)", "type": "(u8, bool)"}}', '{}', '{"A": {"value": "0x0102", "type": "[u8; 2]"}}',
             '{"A": {"value": "list![1, 2]", "type": "List<u8, 4>"}}', '{"A": {"value": "Left(1)", "type": "Either<u8, Signature>"}}', '{"A": {"type": "u8"}}', '[1]']
    alphabet = list("0123456789_abxXfF(){}[]<>,;:=!&|-+*/ \n\t\r\"'") + ["é", "漢", " ", "0x", "0b", "u8", "u1", "fn", "let", "mod", "witness::", "param::", "jet::"]

    def mutate(t):
        t = list(t)
        for _ in range(rng.randint(1, 3)):
            k = rng.randrange(4)
            pos = rng.randrange(len(t) + 1)
            if k == 0 and t: del t[min(pos, len(t) - 1)]
            elif k == 1: t.insert(pos, rng.choice(alphabet))
            elif k == 2 and t: t[min(pos, len(t) - 1)] = rng.choice(alphabet)
            else: t[pos:pos] = t[max(0, pos - 5):pos]
        return "".join(t)

    def bad(resp):
        return resp.startswith("panic") or resp.startswith("died")

    n = 0
    while n < max(budget, 300):
        kind = n % 6
        if kind == 5:
            t = rng.choice(jsons); t = t if n < 60 else mutate(t)
            for op in (["json_witness", hx(t)], ["json_args", hx(t)]):
                got = drv.call(*op)
                if bad(got) or got.startswith("ser-err"):
                    return {"call": "JSON entry point `%s`" % op[0], "input": {"text": t}, "op": op, "expected": "Ok or Err (no panic)", "observed": got[:300]}
            n += 1
            continue
        if kind == 0:
            t = progs[(n // 6) % len(progs)] if n < 6 * len(progs) else mutate(rng.choice(progs))      # every sample unmutated first
            ops = [["render_err", hx(t)], ["run", hx(t), hx(""), hx("mod witness { const W: u8 = 1; }"), "1"]]
        elif kind == 1:
            t = rng.choice(types); t = t if n < 60 else mutate(t)
            ops = [["parse_type", hx(t)]]
        elif kind == 2:
            v, ty = rng.choice(values)
            if n >= 100:
                if rng.random() < 0.5: v = mutate(v)
                else: ty = rng.choice([x for x in types if x.strip() and x != "Foo"] + ["u1", "u2", "u4", "u16", "u64", "u256", "[u8; 9223372036854775808]"])
            ops = [["struct_value", hx(v), hx(ty)]]
        elif kind == 3:
            t = rng.choice(mods); t = t if n < 40 else mutate(t)
            ops = [["parse_witness", hx(t)], ["parse_args", hx(t)]]
        else:
            t = rng.choice(progs); t = mutate(t)
            ops = [["params", hx(t)], ["debug_info", hx(t), hx("")]]
        for op in ops:
            got = drv.call(*op)
            if bad(got):
                return {"call": "text entry point `%s`" % op[0], "input": {"text": [bytes.fromhex(x).decode("utf-8", "replace") if x and len(x) % 2 == 0 and all(c in "0123456789abcdef" for c in x) else x for x in op[1:]]},
                        "op": op, "expected": "Ok or Err (no panic)", "observed": got[:300]}
        n += 1
    return None


@searcher("num/fmt::Display for U256")
def search_u256_display(drv, rng, budget):
    """<U256 as Display>::fmt against Python's decimal rendering: boundary values, powers of ten and two, random values of random magnitude"""
    M = 2 ** 256
    vals = [0, 1, 9, 10, 99, 100, 255, 256, 10 ** 18, 10 ** 19, 10 ** 19 + 1, 10 ** 38, 2 ** 64, 2 ** 128 - 1, 2 ** 128, M - 1, M // 3] + [10 ** k for k in range(0, 78)] \
        + [2 ** k for k in range(0, 256, 7)] + [rng.randrange(M) for _ in range(60)] + [rng.randrange(10 ** rng.randint(1, 77)) for _ in range(60)]
    for v in vals:
        got = drv.call("u256_display", "%064x" % v)
        if got != "ok " + str(v):
            return {"call": "<U256 as Display>::fmt", "input": {"value": v}, "op": ["u256_display", "%064x" % v], "expected": "ok " + str(v), "observed": got}
    return None
