"""Run Verus on a generated unit, classify the outcome, name failed obligations."""
import json, os, re, subprocess, time, bisect
from . import gen

OUT = os.environ.get("VERIF_OUT") or os.path.join(gen.ROOT, "out")
VERUS = os.environ.get("VERUS", "verus")
RLIMIT = os.environ.get("VERIF_RLIMIT", "30")

# messages of Verus that denote a failed proof obligation (semantic), as opposed to
# structural problems (syntax, unsupported construct, resolution errors)
SEMANTIC = [
    (re.compile(r"^postcondition not satisfied"), "postcondition"),
    (re.compile(r"^precondition not satisfied"), "precondition"),
    (re.compile(r"^invariant not satisfied before loop"), "invariant-entry"),
    (re.compile(r"^invariant not satisfied at end of loop body"), "invariant-preserved"),
    (re.compile(r"^loop invariant"), "invariant"),
    (re.compile(r"^possible arithmetic underflow/overflow"), "overflow"),
    (re.compile(r"^possible division by zero"), "div-by-zero"),
    (re.compile(r"^possible bit shift"), "shift-overflow"),
    (re.compile(r"^assertion failed"), "assert"),
    (re.compile(r"^assert_by_contradiction"), "assert"),
    (re.compile(r"^decreases not satisfied"), "termination"),
    (re.compile(r"^could not prove termination"), "termination"),
    (re.compile(r"^unreachable"), "unreachable"),
    (re.compile(r"^failed this"), "postcondition"),
    (re.compile(r"^possible out-of-bounds"), "index"),
    (re.compile(r"^constructed value may fail to meet its declared type invariant"), "type-invariant"),
    (re.compile(r"^broadcast|^unable to prove"), "assert"),
    (re.compile(r"^cannot show invariant holds|^could not show invariant"), "invariant"),
    (re.compile(r"^loop ensures not satisfied|^ensures not satisfied"), "loop-ensures"),
    (re.compile(r"^Call to non-static function fails to satisfy"), "precondition"),      # closure / function-value call
    (re.compile(r"^requires not satisfied"), "precondition"),
    (re.compile(r"^bitvector assertion not satisfied"), "assert"),
    (re.compile(r"^cannot prove"), "assert"),
    (re.compile(r"^Arithmetic operation that might fail"), "overflow"),
    (re.compile(r"^value may fail to meet its declared type invariant"), "type-invariant"),
    (re.compile(r"^need to show decreases|^unable to show termination"), "termination"),
]
UNDECIDED = re.compile(r"(Resource limit|rlimit|timed out|solver|out of memory)", re.I)


class UnitResult:
    def __init__(self, unit):
        self.unit = unit
        self.status = "error"      # pass | fail | undecided | error
        self.failures = []         # semantic failures: dicts
        self.problems = []         # structural / undecided messages
        self.functions = []        # per function verification stats
        self.verified = 0
        self.errors = 0
        self.smt_ms = 0
        self.total_ms = 0
        self.wall_s = 0.0
        self.path = None
        self.extractor = None
        self.cmd = ""
        self.canary = None
        self.degraded = []         # (label, reason): extracted functions whose body could not be annotated: contract assumed, body unverified

    def obligations(self):
        return len(self.functions)

    def discharged(self):
        return len([f for f in self.functions if f["success"]])


def _line_starts(text):
    ls = [0]
    for m in re.finditer("\n", text):
        ls.append(m.end())
    return ls


def _locate(pm_starts, pm, off):
    i = bisect.bisect_right(pm_starts, off) - 1
    if i < 0:
        return None
    return pm[i]


def _enclosing_fn(text, off):
    best = None
    for m in re.finditer(r"\bfn\s+([A-Za-z_][A-Za-z0-9_]*)", text[:off + 1]):
        best = m.group(1)
    return best


def _hl(span):
    out = []
    for t in span.get("text", []):
        s = t["text"][t["highlight_start"] - 1:t["highlight_end"] - 1]
        out.append(s.strip())
    s = " ".join(out)
    s = re.sub(r"\s+", " ", s)
    return s[:160]


def _resolve(span, base):
    """Follow macro expansions to the innermost span located in our generated file.
    Returns (span, macro_name or None)."""
    macro = None
    cur = span
    seen = 0
    while cur is not None and not cur.get("file_name", "").endswith(base) and seen < 10:
        exp = cur.get("expansion")
        if not exp:
            break
        macro = macro or exp.get("macro_decl_name")
        if exp.get("macro_decl_name", "").startswith(("debug_assert", "assert", "unreachable", "panic")):
            macro = exp.get("macro_decl_name")
        cur = exp.get("span")
        seen += 1
    if cur is not None and cur.get("file_name", "").endswith(base):
        out = dict(cur)
        out["is_primary"] = span.get("is_primary")
        out["label"] = span.get("label") or cur.get("label")
        return out, macro
    return span, macro


def run_verus(path, extra=()):
    cmd = [VERUS, path, "--output-json", "--time", "--error-format=json", "--multiple-errors", "8",
           "--rlimit", RLIMIT, "--triggers-mode", "silent"] + list(extra)
    t0 = time.time()
    env = dict(os.environ)
    p = subprocess.run(cmd, stdout=subprocess.PIPE, stderr=subprocess.PIPE, text=True, env=env,
                       cwd=os.path.dirname(path))
    return p, time.time() - t0, " ".join(cmd)


def classify(unit, text, pm, proc):
    """Return (failures, problems, jsonout)."""
    failures, problems = [], []
    problem_fns = []       # for structural problems: label of the extracted function the error lies in (or None)
    try:
        js = json.loads(proc.stdout) if proc.stdout.strip() else {}
    except ValueError:
        js = {}
        problems.append("verus produced no JSON: " + proc.stdout[:300])
    ls = _line_starts(text)
    pm_starts = [p[0] for p in pm]
    for line in proc.stderr.splitlines():
        line = line.strip()
        if not line.startswith("{"):
            continue
        try:
            d = json.loads(line)
        except ValueError:
            continue
        lvl = d.get("level")
        msg = d.get("message", "")
        if lvl not in ("error",):
            if lvl == "warning" and "recommend" in msg:
                pass
            continue
        if msg.startswith("aborting due to") or msg.startswith("could not compile"):
            continue
        kind = None
        for rx, k in SEMANTIC:
            if rx.search(msg):
                kind = k
                break
        base = os.path.basename(unit + ".rs")
        macro = None
        spans = []
        for s0 in d.get("spans", []):
            s1, mc = _resolve(s0, base)
            macro = macro or mc
            spans.append(s1)
        if kind == "precondition" and macro and ("assert" in macro):
            kind = macro.rstrip("!").replace("$crate::", "")
        if macro and ("unreachable" in macro or "panic" in macro):
            kind = macro.rstrip("!").replace("$crate::", "")
        prim = [s for s in spans if s.get("is_primary")] or spans
        sec = [s for s in spans if not s.get("is_primary")]
        if kind is None and any((s.get("label") or "").startswith(("failed precondition", "failed this", "at the end of the function body")) for s in spans):
            kind = "precondition" if any((s.get("label") or "").startswith("failed precondition") for s in spans) else "postcondition"
        if kind is None:
            if UNDECIDED.search(msg):
                problems.append("undecided: " + msg + " " + (" / ".join(_hl(s) for s in spans)))
            else:
                where = ""
                if prim:
                    where = " at %s:%s `%s`" % (prim[0].get("file_name"), prim[0].get("line_start"), _hl(prim[0]))
                problems.append("structural: " + msg + where)
                lab = None
                for s in prim:
                    if not s.get("file_name", "").endswith(base):
                        continue
                    off = ls[s["line_start"] - 1] + s["column_start"] - 1
                    piece = _locate(pm_starts, pm, off)
                    tag = piece[2] if piece else ("?",)
                    if tag[0] == "src":
                        lab = ("src", tag[1], tag[3] + (off - piece[0]))      # (file, source offset): resolved against the extractor's function table
                    elif tag[0] == "ins":
                        lab = ("label", tag[1], tag[2] if len(tag) > 2 else "")
                    elif tag[0] in ("rule", "rule-ins") and len(tag) > 2:
                        lab = ("label", tag[2], "rule")
                    break
                problem_fns.append(lab)
            continue
        # name the obligation
        fn_label = None
        locs = []
        for s in prim + sec:
            fname = s.get("file_name", "")
            if not fname.endswith(os.path.basename(unit + ".rs")):
                locs.append({"file": fname, "text": _hl(s), "label": s.get("label")})
                continue
            off = ls[s["line_start"] - 1] + s["column_start"] - 1
            piece = _locate(pm_starts, pm, off)
            tag = piece[2] if piece else ("?",)
            origin = tag[0]
            lab = None
            if origin in ("src",):
                lab = tag[2]
                fnn = _enclosing_fn(text, off)
                if fnn and not (lab == fnn or lab.endswith("::" + fnn)):
                    lab = lab + "::" + fnn
            elif origin in ("ins", "rule", "rule-ins"):
                lab = tag[1] if origin == "ins" else tag[2]
            if lab is None:
                lab = _enclosing_fn(text, off)
            if fn_label is None and s in prim:
                fn_label = lab
            locs.append({"origin": origin, "fn": lab, "text": _hl(s), "label": s.get("label"),
                         "incpath": tag[1] if origin == "inc" else "",
                         "anchor": tag[2] if origin == "ins" and len(tag) > 2 else None})
        # the function whose body is being checked: for precondition failures the primary span is the call site
        if fn_label is None:
            fn_label = next((l.get("fn") for l in locs if l.get("fn")), "?")
        if kind == "precondition":
            # a failed precondition of a std / assumed external function (unwrap, expect, index, next_power_of_two ...) is a
            # possible panic of the real code; a failed precondition of one of our lemmas is a proof step
            for l in locs[1:] + locs[:1]:
                if l.get("file") and not l["file"].endswith(os.path.basename(unit + ".rs")):
                    kind = "panic-precondition"; break
                if l.get("origin") == "inc" and (l.get("label") or "").startswith("failed precondition"):
                    if l.get("incpath", "").startswith("prelude/"):
                        kind = "panic-precondition"; break
        clause = locs[0]["text"] if locs else ""
        other = [(l.get("label") if (l.get("label") or "").startswith("at the end") else l["text"][:70]) for l in locs[1:] if l.get("text")]
        name = "%s/%s/%s: %s" % (unit, fn_label, kind, clause)
        if other:
            name += " @ " + " | ".join(other)
        failures.append({"obligation": name, "kind": kind, "function": fn_label, "message": msg,
                         "locations": locs, "rendered": d.get("rendered", "")})
    classify.problem_fns = problem_fns
    return failures, problems, js


def insert_canaries(text, pm):
    """Return text with `proof { assert(false); }` right after the opening brace of every
    function extracted from /repo (vacuity canary for its requires)."""
    # an extracted fn starts in a src piece; we look for the header insertion pieces to find fns under contract
    out = []
    marks = []
    # find positions: for each ("ins", label, "header") piece, the next '{' after the piece end
    pos_list = []
    unverified = set(tag[1] for (a, b, tag) in pm if tag[0] == "ins" and len(tag) > 2 and tag[2] == "assume-body")
    for (a, b, tag) in pm:
        if tag[0] == "ins" and len(tag) > 2 and tag[2] == "header" and tag[1] not in unverified:
            j = text.find("{", b) + 1
            # Verus header statements (`hide(f);`) must stay first in the body: the canary goes after them
            while True:
                m = re.match(r"\s*(?://[^\n]*\n\s*)*hide\([A-Za-z_0-9:]+\);", text[j:])
                if not m:
                    break
                j += m.end()
            pos_list.append((j, tag[1]))
    pos_list.sort()
    res = ""
    last = 0
    for j, lab in pos_list:
        res += text[last:j] + " proof { assert(false); /*CANARY:%s*/ } " % lab
        last = j
    res += text[last:]
    return res, [lab for _, lab in pos_list]


def run_unit(unit, canary=False, keep=True, outdir=None):
    OUT = outdir or globals()["OUT"]      # per-property directory: checks of different properties may run at the same time
    r = UnitResult(unit)
    t0 = time.time()
    degrade = set()
    for attempt in range(4):
        try:
            text, pm, ex = gen.generate(unit, degrade=degrade)
        except gen.GenError as e:
            r.status = "undecided"
            r.problems.append("extraction: %s" % e)
            r.wall_s = time.time() - t0
            return r
        r.extractor = ex
        os.makedirs(OUT, exist_ok=True)
        path = os.path.join(OUT, unit + ".rs")
        with open(path, "w") as fh:
            fh.write(text)
        r.path = path
        proc, wall, cmd = run_verus(path)
        r.cmd = cmd
        with open(os.path.join(OUT, unit + ".stderr"), "w") as fh:
            fh.write(proc.stderr)
        with open(os.path.join(OUT, unit + ".json"), "w") as fh:
            fh.write(proc.stdout)
        failures, problems, js = classify(unit, text, pm, proc)
        # a structural (rustc / Verus front end) error inside the annotated body of ONE extracted function: degrade that function
        # (contract kept as an assumption, body not verified) and verify the rest of the unit
        new = set()
        if os.environ.get("VERIF_NO_DEGRADE") != "1":
            for lab in getattr(classify, "problem_fns", []):
                if lab is None:
                    continue
                if lab[0] == "label":
                    if lab[2] in ("header", "ret", "implitems"):
                        continue
                    cand = lab[1]
                else:
                    cand = None
                    for f in ex.functions:
                        if f["file"] == lab[1] and f["byte_range"][0] <= lab[2] < f["byte_range"][1]:
                            if cand is None or (f["byte_range"][1] - f["byte_range"][0]) < cand[1]:
                                cand = (f["label"], f["byte_range"][1] - f["byte_range"][0])
                    cand = cand[0] if cand else None
                if cand and cand not in degrade and any(f["label"] == cand for f in ex.functions):
                    new.add(cand)
        if not new:
            break
        degrade |= new
    r.degraded = list(ex.degraded)
    r.failures, r.problems = failures, problems
    vr = js.get("verification-results", {})
    r.verified = vr.get("verified", 0)
    r.errors = vr.get("errors", 0)
    tm = js.get("times-ms", {})
    r.total_ms = tm.get("total", 0)
    smt = tm.get("smt", {})
    r.smt_ms = smt.get("smt-run", 0)
    for mod in smt.get("smt-run-module-times", []):
        for f in mod.get("function-breakdown", []):
            r.functions.append({"function": f["function"].split("::", 1)[-1], "mode": f.get("mode:", ""),
                                "smt_us": f.get("time-micros", 0), "rlimit": f.get("rlimit", 0),
                                "success": bool(f.get("success"))})
    if problems:
        r.status = "undecided"
    elif failures:
        r.status = "fail"
    elif vr.get("success") and proc.returncode == 0 and r.verified > 0:
        r.status = "pass"
    else:
        r.status = "undecided"
        r.problems.append("verus exit %d without diagnostics: %s" % (proc.returncode, proc.stderr[-400:]))
    if canary and r.status == "pass":
        ctext, labels = insert_canaries(text, pm)
        cpath = os.path.join(OUT, unit + "_canary.rs")
        with open(cpath, "w") as fh:
            fh.write(ctext)
        cproc, cw, _ = run_verus(cpath)
        hit = set()
        for line in cproc.stderr.splitlines():
            if not line.startswith("{"):
                continue
            try:
                d = json.loads(line)
            except ValueError:
                continue
            if d.get("level") == "error" and d.get("message", "").startswith("assertion failed"):
                for s in d.get("spans", []):
                    for t in s.get("text", []):
                        m = re.search(r"/\*CANARY:(.*?)\*/", t["text"])
                        if m:
                            hit.add(m.group(1))
        missing = [l for l in labels if l not in hit]
        r.canary = {"functions": len(labels), "rejected": len(labels) - len(missing), "vacuous": missing}
        if missing:
            r.status = "undecided"
            r.problems.append("vacuity: canary `assert(false)` at entry of %s was NOT rejected (contradictory requires?)" % ", ".join(missing))
    r.wall_s = time.time() - t0
    return r
