"""Minimal Rust tokenizer + item locator.

Good enough for cutting items *verbatim* out of /repo/src: it understands
comments (line, nested block), string / raw string / byte string literals,
char literals vs. lifetimes, and bracket nesting.  No line numbers are used as
anchors anywhere; everything is located by names and ordinals.
"""
import re

class Tok:
    __slots__ = ("kind", "text", "start", "end")
    def __init__(self, kind, text, start, end):
        self.kind, self.text, self.start, self.end = kind, text, start, end
    def __repr__(self):
        return "Tok(%s,%r,%d)" % (self.kind, self.text, self.start)

IDENT_START = re.compile(r"[A-Za-z_]")
IDENT = re.compile(r"[A-Za-z_][A-Za-z0-9_]*")
NUM = re.compile(r"[0-9][0-9A-Za-z_]*(\.[0-9][0-9A-Za-z_]*)?")
RAWSTR = re.compile(r"b?r(#*)\"")

class LexError(Exception):
    pass

def tokenize(src):
    """Return list of tokens. kinds: ident, num, str, char, lifetime, punct,
    comment, doc (doc comments ///, //!, /** */)."""
    toks = []
    i, n = 0, len(src)
    while i < n:
        c = src[i]
        if c.isspace():
            i += 1
            continue
        if src.startswith("//", i):
            j = src.find("\n", i)
            if j < 0:
                j = n
            text = src[i:j]
            kind = "doc" if (text.startswith("///") and not text.startswith("////")) or text.startswith("//!") else "comment"
            toks.append(Tok(kind, text, i, j))
            i = j
            continue
        if src.startswith("/*", i):
            depth, j = 1, i + 2
            while j < n and depth:
                if src.startswith("/*", j):
                    depth += 1; j += 2
                elif src.startswith("*/", j):
                    depth -= 1; j += 2
                else:
                    j += 1
            text = src[i:j]
            kind = "doc" if text.startswith("/**") and not text.startswith("/***") and len(text) > 4 else "comment"
            toks.append(Tok(kind, text, i, j))
            i = j
            continue
        m = RAWSTR.match(src, i)
        if m:
            hashes = m.group(1)
            close = '"' + hashes
            j = src.find(close, m.end())
            if j < 0:
                raise LexError("unterminated raw string at %d" % i)
            j += len(close)
            toks.append(Tok("str", src[i:j], i, j))
            i = j
            continue
        if c == '"' or (c == 'b' and i + 1 < n and src[i + 1] == '"'):
            j = i + (2 if c == 'b' else 1)
            while j < n and src[j] != '"':
                j += 2 if src[j] == '\\' else 1
            j += 1
            toks.append(Tok("str", src[i:j], i, j))
            i = j
            continue
        if c == "'" or (c == 'b' and i + 1 < n and src[i + 1] == "'"):
            k = i + (1 if c == 'b' else 0)
            # char literal or lifetime
            if k + 1 < n and src[k + 1] == '\\':
                j = k + 2
                while j < n and src[j] != "'":
                    j += 1
                j += 1
                toks.append(Tok("char", src[i:j], i, j))
                i = j
                continue
            if k + 2 < n and src[k + 2] == "'":
                j = k + 3
                toks.append(Tok("char", src[i:j], i, j))
                i = j
                continue
            # multi-byte char literal like 'é'
            mm = re.compile(r"'[^'\\\n]'").match(src, k)
            if mm:
                toks.append(Tok("char", src[i:mm.end()], i, mm.end()))
                i = mm.end()
                continue
            mm = IDENT.match(src, k + 1)
            if mm and c == "'":
                toks.append(Tok("lifetime", src[i:mm.end()], i, mm.end()))
                i = mm.end()
                continue
            raise LexError("bad quote at %d" % i)
        m = IDENT.match(src, i)
        if m:
            toks.append(Tok("ident", m.group(0), i, m.end()))
            i = m.end()
            continue
        m = NUM.match(src, i)
        if m:
            toks.append(Tok("num", m.group(0), i, m.end()))
            i = m.end()
            continue
        # punctuation: multi-char operators that matter for us
        for op in ("..=", "...", "<<=", ">>=", "->", "=>", "::", "==", "!=", "<=", ">=", "&&", "||", "+=", "-=", "*=", "/=", "%=", "^=", "&=", "|=", "<<", ">>", ".."):
            if src.startswith(op, i):
                toks.append(Tok("punct", op, i, i + len(op)))
                i += len(op)
                break
        else:
            toks.append(Tok("punct", c, i, i + 1))
            i += 1
    return toks

OPEN = {"(": ")", "[": "]", "{": "}"}
CLOSE = {")": "(", "]": "[", "}": "{"}

def code_tokens(toks):
    return [t for t in toks if t.kind not in ("comment", "doc")]

def match_brackets(toks):
    """Map index of opening token -> index of closing token (over given list)."""
    stack, m = [], {}
    for idx, t in enumerate(toks):
        if t.kind != "punct":
            continue
        if t.text in OPEN:
            stack.append(idx)
        elif t.text in CLOSE:
            if not stack:
                raise LexError("unbalanced %r at %d" % (t.text, t.start))
            o = stack.pop()
            if OPEN[toks[o].text] != t.text:
                raise LexError("mismatched bracket at %d" % t.start)
            m[o] = idx
            m[idx] = o
    if stack:
        raise LexError("unclosed bracket at %d" % toks[stack[-1]].start)
    return m


class Item:
    """An item located in a source file."""
    def __init__(self, kind, name, header, start, end, body_open, body_close, attr_start):
        self.kind = kind            # fn | impl | struct | enum | const | macro | trait | mod | type
        self.name = name
        self.header = header        # normalised header text for impls
        self.start = start          # byte offset of first token of the item proper (after attributes/docs)
        self.end = end              # byte offset one past the item
        self.body_open = body_open  # offset of '{' (or None)
        self.body_close = body_close  # offset of matching '}' (or None)
        self.attr_start = attr_start  # offset where leading attributes/docs start
    def __repr__(self):
        return "Item(%s %s %r %d..%d)" % (self.kind, self.name, self.header, self.start, self.end)

def norm_ws(s):
    return re.sub(r"\s+", " ", s).strip()

ITEM_KW = ("fn", "impl", "struct", "enum", "const", "static", "trait", "mod", "type", "macro_rules", "use", "union")
QUALS = ("pub", "const", "unsafe", "async", "extern", "default")

def items_in(src, lo, hi):
    """Locate items in src[lo:hi] at nesting depth 0 (relative).  Statement-level
    code (in function bodies) is skipped over; only item keywords at depth 0
    that begin a statement are considered."""
    toks = [t for t in tokenize(src[lo:hi])]
    for t in toks:
        t.start += lo; t.end += lo
    ct = code_tokens(toks)
    br = match_brackets(ct)
    # positions of all tokens incl. doc for attr_start computation
    items = []
    i, n = 0, len(ct)
    stmt_start = True
    while i < n:
        t = ct[i]
        if t.kind == "punct" and t.text in OPEN:
            # skip whole group
            j = br[i]
            stmt_start = (t.text == "{")
            i = j + 1
            continue
        if not stmt_start:
            if t.kind == "punct" and t.text in (";",):
                stmt_start = True
            i += 1
            continue
        # at statement start: parse attributes
        k = i
        attr_start = None
        while k < n and ct[k].kind == "punct" and ct[k].text == "#":
            if attr_start is None:
                attr_start = ct[k].start
            k2 = k + 1
            if k2 < n and ct[k2].text == "!":
                k2 += 1
            if k2 < n and ct[k2].text == "[":
                k = br[k2] + 1
            else:
                break
        q = k
        # qualifiers
        while q < n and ct[q].kind == "ident" and ct[q].text in QUALS:
            if ct[q].text == "pub" and q + 1 < n and ct[q + 1].text == "(":
                q = br[q + 1] + 1
            elif ct[q].text == "extern" and q + 1 < n and ct[q + 1].kind == "str":
                q += 2
            elif ct[q].text == "const" and q + 1 < n and ct[q + 1].kind == "ident" and ct[q + 1].text not in ("fn", "unsafe", "async", "extern"):
                break   # `const NAME: T = ...;`
            else:
                q += 1
        if q < n and ct[q].kind == "ident" and ct[q].text in ITEM_KW and not (ct[q].text in ("type",) and False):
            kw = ct[q].text
            item_start = ct[k].start
            if attr_start is None:
                attr_start = item_start
            # include leading doc comments in attr_start
            attr_start = _extend_over_docs(toks, attr_start)
            # find the end of the item
            j = q + 1
            name = None
            if kw == "macro_rules":
                # macro_rules ! name { ... }
                name = ct[q + 2].text
                j = q + 3
                body_o = j
                body_c = br[j]
                end = ct[body_c].end
                if body_c + 1 < n and ct[body_c + 1].text == ";" and ct[j].text != "{":
                    end = ct[body_c + 1].end; body_c2 = body_c + 1
                items.append(Item("macro", name, None, item_start, end, ct[body_o].start, ct[body_c].start, attr_start))
                i = body_c + 1
                if i < n and ct[i].text == ";":
                    i += 1
                stmt_start = True
                continue
            if kw in ("fn", "struct", "enum", "trait", "mod", "type", "union", "const", "static"):
                if j < n and ct[j].kind == "ident":
                    name = ct[j].text
            # scan to first '{' or ';' at depth 0
            body_o = body_c = None
            while j < n:
                tj = ct[j]
                if tj.kind == "punct" and tj.text in ("(", "["):
                    j = br[j] + 1
                    continue
                if tj.kind == "punct" and tj.text == "{":
                    if kw in ("const", "static", "type", "use"):
                        j = br[j] + 1   # expression block inside initialiser
                        continue
                    body_o = j
                    body_c = br[j]
                    break
                if tj.kind == "punct" and tj.text == ";":
                    break
                j += 1
            if body_o is not None:
                end_idx = body_c
                header = norm_ws(src[ct[q].start:ct[body_o].start])
                items.append(Item(kw, name, header, item_start, ct[end_idx].end, ct[body_o].start, ct[body_c].start, attr_start))
                i = end_idx + 1
            else:
                end_idx = j if j < n else n - 1
                header = norm_ws(src[ct[q].start:ct[end_idx].start])
                items.append(Item(kw, name, header, item_start, ct[end_idx].end, None, None, attr_start))
                i = end_idx + 1
            stmt_start = True
            continue
        # not an item: ordinary statement
        stmt_start = False
        if t.kind == "punct" and t.text == ";":
            stmt_start = True
        i += 1
    return items

def _extend_over_docs(toks, pos):
    """Move pos backwards over doc comments / plain comments directly preceding pos."""
    # toks includes comments; find last token ending <= pos
    idx = None
    for k, t in enumerate(toks):
        if t.start >= pos:
            idx = k
            break
    if idx is None:
        return pos
    k = idx - 1
    while k >= 0 and toks[k].kind in ("doc",):
        pos = toks[k].start
        k -= 1
    return pos

def _descend(src, item):
    lo, hi = item.body_open + 1, item.body_close
    if item.kind == "macro":
        ct = code_tokens(tokenize(src[lo:hi]))
        br = match_brackets(ct)
        arrows = [k for k, t in enumerate(ct) if t.text == "=>" and all(not (o < k < c) for o, c in br.items() if o < c)]
        if len(arrows) != 1:
            raise KeyError("macro %r: expected exactly one arm" % item.name)
        o = arrows[0] + 1
        lo, hi = lo + ct[o].start + 1, lo + ct[br[o]].start
    return lo, hi


def _candidates(src, lo, hi, sel):
    kind, _, rest = sel.partition(" ")
    rest = norm_ws(rest)
    if sel.startswith("impl"):
        kind = "impl"
    cands = []
    for it in items_in(src, lo, hi):
        if kind == "impl" and it.kind == "impl":
            if norm_ws(it.header) == norm_ws(sel):
                cands.append(it)
        elif kind == "macro" and it.kind == "macro" and it.name == rest:
            cands.append(it)
        elif it.kind == kind and it.name == rest:
            cands.append(it)
    return cands


def find_item(src, path):
    """path: list of selectors like 'impl NonZeroPow2Usize', 'fn new', 'struct U256', 'macro checked_num',
    'enum Task', 'const MAX_DIGITS'.  Searches nested containers; when a container selector matches several
    items (e.g. two `impl Value` blocks) the one that contains the rest of the path is taken."""
    def rec(lo, hi, idx):
        cands = _candidates(src, lo, hi, path[idx])
        if idx == len(path) - 1:
            return cands
        out = []
        for c in cands:
            if c.body_open is None:
                continue
            l2, h2 = _descend(src, c)
            out.extend(rec(l2, h2, idx + 1))
        return out
    res = rec(0, len(src), 0)
    if len(res) != 1:
        raise KeyError("path %r matched %d items" % (" :: ".join(path), len(res)))
    return res[0]
